#!/venv/bin/python
"""Development aid: every clause name (Check("...")) of every trace specification must be owned by the family regex of at least
one registered driver that validates with that specification.  Prints the clauses without an owner; exit 1 if there is one."""
import glob
import importlib
import re
import sys

sys.path.insert(0, "/verif")
spec_clauses = {}
for f in glob.glob("/verif/spec/*Trace.tla"):
    spec_clauses[f.split("/")[-1][:-4]] = sorted(set(re.findall(r'Check\("([^"]+)"', open(f).read())))
owners = {}
for c in range(1, 21):
    m = importlib.import_module(f"harness.checks.c{c:02d}")
    for drv, (mod, fn, spec, fam) in m.DRIVERS.items():
        for cl in spec_clauses.get(spec, []):
            if re.search(fam, cl):
                owners.setdefault((spec, cl), []).append(f"C{c:02d}:{drv}")
bad = 0
for spec, cls in sorted(spec_clauses.items()):
    un = [cl for cl in cls if (spec, cl) not in owners]
    bad += len(un)
    print(f"{spec}: {len(cls)} clauses, without owner: {un}")
sys.exit(1 if bad else 0)
