#!/venv/bin/python
"""Binding self-test (DESIGN 10): is every recorded field of every trace specification actually constrained?

For each trace specification a few traces are recorded from the real code (they are accepted), then each is mutated on the
harness side - one recorded number changed by one quantum, one boolean flipped, one event dropped, two neighbouring events
swapped, the set-up of another scenario put in front - and validated again.  A mutated trace that is still accepted shows a
field (or an order) the specification does not bind.  Output: per specification the share of rejected mutants and the list of
field paths whose corruption was never rejected; written to selftest/binding_selftest.json (a development aid, not a check).

usage: binding_selftest.py [--per N] [--seed S] [spec ...]"""
import argparse
import copy
import json
import os
import random
import sys

ROOT = os.path.dirname(os.path.dirname(os.path.abspath(__file__)))
sys.path.insert(0, ROOT)
from harness import tlc  # noqa: E402
from harness.common import pmap  # noqa: E402


def sources(rng):
    """spec -> (driver module, function, scenarios)"""
    from harness import e2e, forcedrv, trackdrv
    from harness.checks import c04, c12, c13, c14, c16, c18, c20
    out = {}
    out["LadimTrace"] = ("harness.e2e", "run_e2e", [e2e.base_scenario(rng, nsteps=rng.randrange(3, 6)) for _ in range(6)])
    out["ForceTrace"] = ("harness.forcedrv", "force_trace", [forcedrv.time_scenario(rng) for _ in range(3)] + [forcedrv.space_scenario(rng) for _ in range(3)])
    out["ReleaseTrace"] = ("harness.checks.c04", "release_trace", [c04.scenario(rng, True) for _ in range(8)])
    out["PstateTrace"] = ("harness.checks.c05", "random_history", [dict(seed=rng.randrange(10**6), len=14, big=False, cls={}) for _ in range(6)])
    out["TrackTrace"] = ("harness.trackdrv", "track_trace", [trackdrv.scenario(rng, horiz_diff=k % 2 == 0, vert_diff=k % 3 == 0, vadv=k % 3 == 1, advect=True, land=True, flat=False)
                                                             for k in range(6)])
    out["PairTrace"] = ("harness.checks.c14", "pair_only", [c14.family(rng, k) for k in (0, 2, 3)])
    out["ClockTrace"] = ("harness.checks.c13", "clock_trace", c13.clocks("quick", rng)[:6])
    out["GeoTrace"] = ("harness.checks.c16", "grid_trace", c16.grid_scenarios("quick", rng)[:4])
    out["VertTrace"] = ("harness.checks.c12", "exact_trace", c12.exact_scenarios("quick", rng)[:3])
    out["ConfigTrace"] = ("harness.checks.c18", "config_only", [c18.scenario(rng) for _ in range(6)])
    out["StartupTrace"] = ("harness.checks.c20", "fault_trace", c20.scenarios("quick", rng.randrange(10**6))[:12])
    return out


def leaves(obj, path=()):
    """paths to integer / boolean leaves (lists of numbers: one random element is a leaf)"""
    if isinstance(obj, bool) or isinstance(obj, int):
        yield path
    elif isinstance(obj, dict):
        for k, v in obj.items():
            if k in ("ev", "tid"):
                continue
            yield from leaves(v, path + (k,))
    elif isinstance(obj, list):
        for i, v in enumerate(obj):
            yield from leaves(v, path + (i,))


def get(obj, path):
    for p in path:
        obj = obj[p]
    return obj


def setp(obj, path, val):
    for p in path[:-1]:
        obj = obj[p]
    obj[path[-1]] = val


def generic(path):
    return ".".join("*" if isinstance(p, int) else str(p) for p in path)


def mutants(trace, rng, per):
    """list of (kind, label, mutated trace)"""
    out = []
    idx = [k for k in range(1, len(trace))]
    if not idx:
        return out
    for _ in range(per):
        k = rng.choice(idx)
        ls = list(leaves(trace[k]))
        if not ls:
            continue
        path = rng.choice(ls)
        t = copy.deepcopy(trace)
        v = get(t[k], path)
        setp(t[k], path, (not v) if isinstance(v, bool) else v + rng.choice([1, -1]))
        out.append(("field", f"{trace[k]['ev']}:{generic(path)}", t))
    for _ in range(max(1, per // 4)):
        k = rng.choice(idx)
        t = copy.deepcopy(trace)
        del t[k]
        out.append(("drop", f"drop:{trace[k]['ev']}", t))
    for _ in range(max(1, per // 4)):
        if len(trace) < 3:
            break
        k = rng.randrange(1, len(trace) - 1)
        if trace[k]["ev"] == trace[k + 1]["ev"]:
            continue
        t = copy.deepcopy(trace)
        t[k], t[k + 1] = t[k + 1], t[k]
        out.append(("swap", f"swap:{trace[k]['ev']}/{trace[k + 1]['ev']}", t))
    return out


def main():
    ap = argparse.ArgumentParser()
    ap.add_argument("--per", type=int, default=12)
    ap.add_argument("--seed", type=int, default=7)
    ap.add_argument("specs", nargs="*")
    a = ap.parse_args()
    rng = random.Random(a.seed)
    src = sources(rng)
    report = {}
    for spec, (mod, fn, scs) in src.items():
        if a.specs and spec not in a.specs:
            continue
        traces = pmap(mod, fn, scs)
        base = tlc.validate_traces(spec, traces, batch_events=1500)
        good = [t for k, t in enumerate(traces) if (k + 1) in base.accepted]
        muts, labels = [], []
        for k, t in enumerate(good):
            other = good[(k + 1) % len(good)]
            for kind, label, mt in mutants(t, rng, a.per):
                muts.append(mt)
                labels.append((kind, label))
            if len(good) > 1 and other[0] != t[0]:
                mt = copy.deepcopy(t)
                mt[0] = copy.deepcopy(other[0])
                muts.append(mt)
                labels.append(("setup", "setup:of_another_scenario"))
        if not muts:
            report[spec] = dict(accepted_base=len(good), mutants=0)
            continue
        v = tlc.validate_traces(spec, muts, batch_events=1500)
        rej = set(v.rejects)
        by_kind, unbound, bound = {}, {}, {}
        for k, (kind, label) in enumerate(labels):
            r = (k + 1) in rej
            d = by_kind.setdefault(kind, [0, 0])
            d[0] += 1
            d[1] += int(r)
            (bound if r else unbound)[label] = (bound if r else unbound).get(label, 0) + 1
        never = sorted(lab for lab in unbound if lab not in bound)
        report[spec] = dict(accepted_base=len(good), recorded=len(traces), mutants=len(muts), rejected=len([1 for k in range(len(muts)) if (k + 1) in rej]),
                            by_kind={k: dict(mutants=n, rejected=r) for k, (n, r) in by_kind.items()}, never_rejected=never)
        print(f"{spec}: {report[spec]['rejected']}/{len(muts)} mutated traces rejected; kinds {report[spec]['by_kind']}")
        print(f"   never rejected: {never}")
    os.makedirs(os.path.join(ROOT, "selftest"), exist_ok=True)
    with open(os.path.join(ROOT, "selftest", "binding_selftest.json"), "w") as f:
        json.dump(dict(seed=a.seed, per_trace=a.per, report=report), f, indent=1)


if __name__ == "__main__":
    main()
