#!/bin/bash
# re-confirm every seeded change against the current /repo HEAD and the current checks (the property's own check), three at a time;
# location independent (works in a `vp run` snapshot); summary lines go to stdout, full logs to $PWD/reeval_logs
cd "$(dirname "$0")/.."
mkdir -p reeval_logs
one() {
  d=$1; id=$(basename $d); prop=$(echo $id | cut -c1-3)
  mkdir -p /tmp/lv_reeval_$id
  SEED_TMP=/tmp/lv_reeval_$id tools/seed_eval.py $PWD/$d $id $prop > reeval_logs/$id.log 2>&1
  rm -rf /tmp/lv_reeval_$id
  echo "$id $(grep -E '"detected_by"' -A2 reeval_logs/$id.log | tr -d '\n ') confirmed=$(grep -c '"confirmed": true' reeval_logs/$id.log) applies=$(grep -c '"patch_applies": true' reeval_logs/$id.log)"
}
export -f one
ls -d seeded/* | xargs -P 3 -I{} bash -c 'one {}'
