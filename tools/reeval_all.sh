#!/bin/sh
# re-confirm every seeded change against the current /repo HEAD and the current checks (the property's own check)
cd /verif
for d in seeded/*; do
  id=$(basename $d); prop=$(echo $id | cut -c1-3)
  tools/seed_eval.py /verif/$d $id $prop > /tmp/reeval_$id.log 2>&1
  echo "$id $(grep -E '"detected_by"' -A2 /tmp/reeval_$id.log | tr -d '\n ') $(grep -c '"confirmed": true' /tmp/reeval_$id.log)"
done
