#!/bin/sh
# usage: with_mutant.sh <patch-file|-> <command...>   -- runs the command with LADIM_REPO pointing at a scratch
# worktree of /repo with the patch applied; the worktree is removed afterwards.  Never touches /repo's tree.
set -e
P="$1"; shift
WT=$(mktemp -d /tmp/lv_wt_XXXXXX)
git -C /repo worktree add -q --detach "$WT" HEAD
trap 'git -C /repo worktree remove --force "$WT" 2>/dev/null; rm -rf "$WT"' EXIT
if [ "$P" != "-" ]; then git -C "$WT" apply "$P"; fi
LADIM_REPO="$WT" "$@"
