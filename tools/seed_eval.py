#!/venv/bin/python
"""Confirm a seeded change and run checks against it.
usage: seed_eval.py <agent_out_dir> <seed_id> <property> [check ...]
Steps (all in a scratch worktree of /repo's HEAD outside /repo and /verif, removed afterwards):
  1. patch applies; 2. pinned baseline tests still pass with it; 3. demo fails with / passes without the change;
  4. each listed check (default: the property's own) is run with LADIM_REPO pointing at the mutated worktree.
On success the change is stored under /verif/seeded/<seed_id>/ (patch.diff, demo.py, notes.md, meta.json)."""
import json
import os
import shutil
import subprocess
import sys
import tempfile

PY = "/venv/bin/python"
ROOT = os.path.dirname(os.path.dirname(os.path.abspath(__file__)))      # /verif, or a snapshot of it


def sh(cmd, cwd=None, env=None, timeout=3000):
    e = dict(os.environ)
    e.update(env or {})
    p = subprocess.run(cmd, cwd=cwd, env=e, shell=isinstance(cmd, str), capture_output=True, text=True, timeout=timeout)
    return p.returncode, p.stdout + p.stderr


def main():
    out, sid, prop = sys.argv[1], sys.argv[2], sys.argv[3]
    checks = sys.argv[4:] or [prop]
    base = json.load(open("/root/.vp/BASELINE.json"))["stable_pass"]
    wt = tempfile.mkdtemp(prefix="lv_seed_", dir="/tmp")
    os.rmdir(wt)
    sh(["git", "-C", "/repo", "worktree", "add", "-q", "--detach", wt, "HEAD"])
    meta = dict(seed=sid, property=prop, repo_head=sh("git -C /repo rev-parse --short HEAD")[1].strip())
    try:
        patch = os.path.join(out, "patch_rebased.diff")       # the same change carried over the later repairs of /repo, where patch.diff no longer applies
        if not os.path.exists(patch):
            patch = os.path.join(out, "patch.diff")
        meta["patch"] = os.path.basename(patch)
        demo = os.path.join(out, "demo.py")
        rc0, o0 = sh([PY, demo], cwd=wt, env={"PYTHONPATH": wt})
        meta["demo_without_change"] = rc0
        rc, o = sh(["git", "-C", wt, "apply", patch])
        meta["patch_applies"] = rc == 0
        if rc != 0:
            print("patch does not apply:", o[-500:])
            print(json.dumps(meta)); return 1
        rc1, o1 = sh([PY, demo], cwd=wt, env={"PYTHONPATH": wt})
        meta["demo_with_change"] = rc1
        meta["demo_output_with_change"] = o1.strip().splitlines()[-3:]
        jx = os.path.join(wt, "junit.xml")
        sh(f"{PY} -m pytest -q -p no:cacheprovider --timeout=900 --continue-on-collection-errors --junitxml={jx}", cwd=wt)
        import xml.etree.ElementTree as ET
        passed = set()
        for tc in ET.parse(jx).getroot().iter("testcase"):
            if not list(tc):
                passed.add(f"{tc.get('classname')}::{tc.get('name')}")
        missing = [t for t in base if t not in passed]
        meta["baseline_tests_still_pass"] = not missing
        meta["baseline_missing"] = missing
        os.remove(jx)
        res = {}
        for c in checks:
            rc, o = sh([PY, "run.py", "check", c, "--tier", "quick"], cwd=ROOT, env={"LADIM_REPO": wt, "TMPDIR": os.environ.get("SEED_TMP", "/tmp")})
            viol = [ln for ln in o.splitlines() if ln.startswith("VIOLATION")]
            clauses = sorted({ln.split("clause=")[1].split(" ")[0] for ln in o.splitlines() if "clause=" in ln})
            res[c] = dict(exit=rc, violations=len(viol), clauses=clauses[:8], summary=[ln for ln in o.splitlines() if ln.startswith(c + " [")][-1:])
        meta["checks"] = res
        meta["detected_by"] = [c for c, r in res.items() if r["exit"] == 1]
        ok = meta["demo_without_change"] == 0 and meta["demo_with_change"] != 0 and meta["baseline_tests_still_pass"]
        meta["confirmed"] = ok
        print(json.dumps(meta, indent=1))
        if ok:
            dst = os.path.join(ROOT, "seeded", sid)
            os.makedirs(dst, exist_ok=True)
            for f in ("patch.diff", "demo.py", "notes.md"):
                if os.path.exists(os.path.join(out, f)) and os.path.realpath(out) != os.path.realpath(dst):
                    shutil.copy(os.path.join(out, f), dst)
            meta["needs_to_manifest"] = "see notes.md"
            meta["ran"] = [f"git apply patch.diff in a scratch worktree of /repo@{meta['repo_head']}", "demo.py with/without the change",
                           "pinned pytest baseline with the change", *[f"run.py check {c} --tier quick (LADIM_REPO=<worktree>)" for c in checks]]
            old = {}
            if os.path.exists(os.path.join(dst, "meta.json")):
                old = json.load(open(os.path.join(dst, "meta.json")))
            for k in ("change", "needs_to_manifest", "caught_by_as_of_DESIGN", "author_notes_excerpt", "history"):
                if k in old and (k not in meta or meta[k] == "see notes.md"):
                    meta[k] = old[k]
            json.dump(meta, open(os.path.join(dst, "meta.json"), "w"), indent=1)
        return 0
    finally:
        sh(["git", "-C", "/repo", "worktree", "remove", "--force", wt])
        shutil.rmtree(wt, ignore_errors=True)


if __name__ == "__main__":
    sys.exit(main())
