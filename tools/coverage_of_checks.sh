#!/bin/sh
# usage: coverage_of_checks.sh <scratch-dir> [checks...]  -- development aid: runs quick checks with line coverage of /repo/ladim
# collected in the worker processes and prints the lines no check executed (numba-compiled kernels show as unexecuted).
D="$1"; shift
CHECKS="${@:-C01 C02 C03 C04 C05 C06 C07 C08 C09 C10 C11 C12 C13 C14 C15 C16 C17 C18 C19 C20}"
mkdir -p "$D/out"
cd /verif
for c in $CHECKS; do
  VERIF_COVERAGE="$D" VERIF_OUT="$D/out" NUMBA_DISABLE_JIT=${NUMBA_DISABLE_JIT:-0} /venv/bin/python run.py check $c --tier quick 2>&1 | tail -1
done
cd "$D" && /venv/bin/python -m coverage combine -q --data-file=.coverage . >/dev/null 2>&1
/venv/bin/python -m coverage report --data-file=.coverage -m --omit='*/ROMS2.py'
