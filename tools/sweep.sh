#!/bin/sh
# usage: sweep.sh <patch> <outfile> [checks...] : runs the quick checks against a scratch worktree with the patch applied
P="$1"; OUT="$2"; shift 2
CHECKS="${@:-C01 C02 C03 C04 C05 C06 C07 C08 C09 C10 C11 C12 C13 C14 C15 C16 C17 C18 C19 C20}"
WT=$(mktemp -d /tmp/lv_sw_XXXXXX); rmdir "$WT"
git -C /repo worktree add -q --detach "$WT" HEAD
trap 'git -C /repo worktree remove --force "$WT" 2>/dev/null; rm -rf "$WT"' EXIT
if ! git -C "$WT" apply "$P"; then echo "PATCH-FAILED $P" > "$OUT"; exit 2; fi
: > "$OUT"
for c in $CHECKS; do
  cd /verif && LADIM_REPO="$WT" /venv/bin/python run.py check $c --tier quick > /tmp/sweep_$$.log 2>&1; rc=$?
  echo "$c exit=$rc $(grep -c '^VIOLATION' /tmp/sweep_$$.log) violations; clauses: $(grep 'clause=' /tmp/sweep_$$.log | sed 's/.*clause=\([^ ]*\).*/\1/' | sort -u | tr '\n' ' ') $(grep MACHINERY /tmp/sweep_$$.log | head -1 | cut -c1-200)" >> "$OUT"
done
rm -f /tmp/sweep_$$.log
