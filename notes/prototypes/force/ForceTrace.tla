---- MODULE ForceTrace ----
(* Prototype: C02 + C03 conformance. TLC computes the expected forcing values from the set-up:
   frame layout (time), field formula (node values), grid (subgrid, mask, levels), particle lattice positions. *)
EXTENDS Integers, Sequences, FiniteSets, TLC, Json, IOUtils
Tr == ndJsonDeserialize(IOEnv.TRACE_FILE)
VARIABLES l, S, tid, status
vars == <<l, S, tid, status>>
Q == 4            \* horizontal lattice: quarter cells
Abs(x) == IF x < 0 THEN 0 - x ELSE x
Check(name, c) == IF c THEN TRUE ELSE PrintT(<<"REJECT", tid, l, name>>) /\ FALSE
Last(s) == s[Len(s)]

\* ---- field formula: node value (units 1/1024 m/s, multiple of 24) at frame f, level k (0-based), global node (j, i), component c (0 = u, 1 = v)
Node(fm, f, k, j, i, c) == 24 * (((fm.a * i + fm.b * j + fm.c * k + fm.d * f * f + fm.e * i * j + 17 * c) % 97) - 48)
Scal(fm, f, k, j, i) == 1000 * f + 100 * k + 10 * j + i

\* ---- time: declarative interpolation (A.1).  fs = frame steps (simulation order), fidx = frame number (index into the formula)
FloorIdx(fs, s) == CHOOSE n \in 1..Len(fs) : fs[n] <= s /\ (n = Len(fs) \/ fs[n+1] > s)
\* twice the node value at half-step time s2/2
Lerp2(L, s2, k, j, i, c) ==
   LET s == s2 \div 2
       n == IF s2 >= 2 * Last(L.fs) THEN Len(L.fs) - 1 ELSE FloorIdx(L.fs, s)
       a == L.fs[n]  b == L.fs[n+1]
       v0 == Node(S.fm, L.fidx[n], k, j, i, c)   v1 == Node(S.fm, L.fidx[n+1], k, j, i, c)
   IN 2 * v0 + ((v1 - v0) * (s2 - 2*a)) \div (b - a)

\* ---- grid: loaded sub-rectangle [i0,i1) x [j0,j1) of the global mask M (rows j, 0-based -> +1)
Sea(j, i) == S.grid.M[j+1][i+1] > 0
InLoaded(j, i) == i >= S.grid.i0 /\ i < S.grid.i1 /\ j >= S.grid.j0 /\ j < S.grid.j1
\* u-face between rho cells (j,i) and (j,i+1): open iff both are sea (edge faces of the loaded rectangle: inner cell only)
UFaceOpen(j, i) == (IF InLoaded(j, i) THEN Sea(j, i) ELSE TRUE) /\ (IF InLoaded(j, i+1) THEN Sea(j, i+1) ELSE TRUE)
VFaceOpen(j, i) == (IF InLoaded(j, i) THEN Sea(j, i) ELSE TRUE) /\ (IF InLoaded(j+1, i) THEN Sea(j+1, i) ELSE TRUE)

\* ---- vertical: levels of the particle's own cell, z in metres (integers), Z depth positive down
Zr(j, i) == S.grid.zr[j+1][i+1]                       \* sequence of N increasing negative integers
Z2S(zr, zneg) ==                                      \* returns <<K (1-based upper index), an, ad>> ; weight a = an/ad on level K-1
   LET N == Len(zr)
       cnt == Cardinality({ k \in 1..N : zr[k] < zneg })
   IN IF cnt = N THEN <<N, 0, 1>> ELSE IF cnt = 0 THEN <<2, 1, 1>> ELSE <<cnt + 1, zr[cnt+1] - zneg, zr[cnt+1] - zr[cnt]>>
\* own cell: round half even; at exact edges either neighbour is acceptable
OwnCells(xq) == LET c == (2 * xq + Q) \div (2 * Q)  r == (2 * xq + Q) % (2 * Q) IN IF r = 0 THEN {c - 1, c} ELSE {c}

\* ---- expected velocity component c at lattice position (xq, yq), depth z, half-step time s2, for own cell (cj, ci)
\* result numerator over denominator Q*Q*ad*2 (units 1/1024 m/s)
Sample(L, xq, yq, z, s2, c, cj, ci) ==
   LET ka == Z2S(Zr(cj, ci), 0 - z)    K == ka[1]  an == ka[2]  ad == ka[3]
       xs == IF c = 0 THEN xq - Q \div 2 ELSE xq         \* u-points sit at i + 1/2 ; v-points at j + 1/2
       ys == IF c = 1 THEN yq - Q \div 2 ELSE yq
       i == xs \div Q   p == xs % Q
       j == ys \div Q   q == ys % Q
       open(jj, ii) == IF c = 0 THEN UFaceOpen(jj, ii) ELSE VFaceOpen(jj, ii)
       node(jj, ii) == IF open(jj, ii)
                       THEN an * Lerp2(L, s2, K - 2, jj, ii, c) + (ad - an) * Lerp2(L, s2, K - 1, jj, ii, c)
                       ELSE 0
   IN <<(Q-p)*(Q-q)*node(j,i) + p*(Q-q)*node(j,i+1) + (Q-p)*q*node(j+1,i) + p*q*node(j+1,i+1), Q*Q*ad*2>>

Sign == IF S.rev THEN -1 ELSE 1
\* observed n over denominator D == e.den ;  n * den_exp = Sign * num_exp * D
ValOK(L, e, pn, n, s2, c) ==
   \E cj \in OwnCells(e.y[pn]), ci \in OwnCells(e.x[pn]) :
      LET r == Sample(L, e.x[pn], e.y[pn], e.z[pn], s2, c, cj, ci) IN e.den % r[2] = 0 /\ n = Sign * r[1] * (e.den \div r[2])
ScalOK(L, e, pn) ==
   \E cj \in OwnCells(e.y[pn]), ci \in OwnCells(e.x[pn]) :
      LET ka == Z2S(Zr(cj, ci), 0 - e.z[pn])
          f == L.fidx[FloorIdx(L.fs, e.step)]
      IN e.temp[pn] \in { Scal(S.fm, f, ka[1] - 1, cj, ci), Scal(S.fm, f, ka[1] - 2, cj, ci) }

Init == l = 1 /\ S = [none |-> 0] /\ tid = 0 /\ status = "ok"
Ev == Tr[l]
Is(e) == l <= Len(Tr) /\ Tr[l].ev = e /\ l' = l + 1
Setup == /\ Is("setup") /\ (IF tid > 0 /\ status = "ok" THEN PrintT(<<"ACCEPT", tid>>) ELSE TRUE)
         /\ S' = Ev /\ tid' = Ev.tid /\ status' = "ok"
Skip == status = "rej" /\ l <= Len(Tr) /\ Tr[l].ev \notin {"setup", "eof"} /\ l' = l + 1 /\ UNCHANGED <<S, tid, status>>
Obs == /\ status = "ok" /\ Is("obs")
       /\ LET e == Ev  L == S.layout IN
          IF /\ Check("obs.offlattice", ~e.off)
             /\ Check("obs.len", Len(e.u0) = Len(e.x))
             /\ Check("obs.u.frac0", \A pn \in 1..Len(e.x) : ValOK(L, e, pn, e.u0[pn], 2 * e.step, 0))
             /\ Check("obs.v.frac0", \A pn \in 1..Len(e.x) : ValOK(L, e, pn, e.v0[pn], 2 * e.step, 1))
             /\ Check("obs.u.half",  \A pn \in 1..Len(e.x) : ValOK(L, e, pn, e.u1[pn], 2 * e.step + 1, 0))
             /\ Check("obs.u.full",  \A pn \in 1..Len(e.x) : ValOK(L, e, pn, e.u2[pn], 2 * e.step + 2, 0))
             /\ Check("obs.var.u",   \A pn \in 1..Len(e.x) : ValOK(L, e, pn, e.uvar[pn], 2 * e.step, 0))
             /\ Check("obs.scalar",  \A pn \in 1..Len(e.x) : ScalOK(L, e, pn))
          THEN UNCHANGED <<S, tid, status>>
          ELSE status' = "rej" /\ UNCHANGED <<S, tid>>
Crash == /\ status = "ok" /\ Is("crash") /\ (IF Check("run.crashed", FALSE) THEN FALSE ELSE status' = "rej" /\ UNCHANGED <<S, tid>>)
Eof == Is("eof") /\ (IF tid > 0 /\ status = "ok" THEN PrintT(<<"ACCEPT", tid>>) ELSE TRUE) /\ UNCHANGED <<S, tid, status>>
Next == Setup \/ Obs \/ Skip \/ Crash \/ Eof
Spec == Init /\ [][Next]_vars
Accepted == TLCGet("stats").diameter - 1 = Len(Tr)
====
