import sys, os, json, glob, shutil, logging, traceback
import numpy as np, netCDF4 as nc4
HERE = os.path.dirname(os.path.abspath(__file__)); sys.path.insert(0, HERE)
from mk import make_roms
from ladim.timekeeper import TimeKeeper
from ladim.ROMS import Grid, Forcing
from ladim.state import State
import ladim
logging.disable(logging.CRITICAL)
T0 = np.datetime64("2000-01-01T00:00:00")
D = 1280; UNIT = 1024
def node(fm, f, k, j, i, c): return 24 * (((fm["a"]*i + fm["b"]*j + fm["c"]*k + fm["d"]*f*f + fm["e"]*i*j + 17*c) % 97) - 48)
def one(tid, rng, work, out):
    shutil.rmtree(work, ignore_errors=True); os.makedirs(work)
    dt = 30; imax, jmax, N = 8, 7, 2
    M = np.ones((jmax, imax), int)
    for _ in range(rng.integers(0, 6)): M[rng.integers(0, jmax), rng.integers(0, imax)] = 0
    H = 40 * rng.integers(1, 3, (jmax, imax))
    fm = dict(a=int(rng.integers(1, 20)), b=int(rng.integers(1, 20)), c=int(rng.integers(1, 40)), d=int(rng.integers(1, 30)), e=int(rng.integers(0, 5)))
    nfr = int(rng.integers(2, 7)); gaps = rng.choice([1, 1, 2, 3, 4], nfr-1); fsteps = np.concatenate([[0], np.cumsum(gaps)]); times = [int(x)*dt for x in fsteps]
    cuts = sorted(rng.choice(np.arange(1, nfr), rng.integers(0, min(3, nfr-1)+1), replace=False)) if nfr > 1 else []
    parts = list(zip([0]+list(cuts), list(cuts)+[nfr]))
    pack = bool(rng.integers(0, 2))
    for n, (a, b) in enumerate(parts):
        fr = list(range(a, b))
        def ufun(t, k, x, y, fr=fr): f = times.index(int(t)); return node(fm, f, k, y.astype(int), (x-0.5).astype(int), 0)/UNIT
        def vfun(t, k, x, y, fr=fr): f = times.index(int(t)); return node(fm, f, k, (y-0.5).astype(int), x.astype(int), 1)/UNIT
        def sfun(t, k, i, j): f = times.index(int(t)); return 1000.*f + 100*k + 10*j + i
        make_roms(f"{work}/f_{n:02d}.nc", imax=imax, jmax=jmax, N=N, times=tuple(times[a:b]), mask=M.astype(float), h=H.astype(float), hc=0.0, dx=128.,
                  ufun=ufun, vfun=vfun, sfun=sfun, pack=(2.0**-10 if pack else None))
    rev = bool(rng.integers(0, 2))
    a = int(rng.integers(0, fsteps[-1])); b = int(rng.integers(a+1, fsteps[-1]+1))
    start, stop = ((b*dt, a*dt) if rev else (a*dt, b*dt))
    sub = None
    if rng.integers(0, 2):
        i0 = int(rng.integers(1, 3)); i1 = int(rng.integers(imax-3, imax)); j0 = int(rng.integers(1, 3)); j1 = int(rng.integers(jmax-3, jmax)); sub = (i0, i1, j0, j1)
    timer = TimeKeeper(start=T0+np.timedelta64(start, "s"), stop=T0+np.timedelta64(stop, "s"), dt=dt, time_reversal=rev)
    state = State(instance_variables=dict(temp=float))
    grid = Grid(f"{work}/f_00.nc", subgrid=sub)
    fsim = [((start - t) if rev else (t - start))//dt for t in times]
    order = np.argsort(fsim)
    zr = [[[int(round(z)) for z in (-0.75*H[j, i], -0.25*H[j, i])] for i in range(imax)] for j in range(jmax)]
    setup = dict(ev="setup", tid=tid, rev=rev, fm=fm, layout=dict(fs=[int(fsim[n]) for n in order], fidx=[int(n) for n in order]),
                 grid=dict(i0=grid.i0, i1=grid.i1, j0=grid.j0, j1=grid.j1, M=M.tolist(), zr=zr))
    out.write(json.dumps(setup)+"\n")
    # lattice probes in the valid region, sea cells
    xs = np.arange(int((grid.xmin+0.5)*4)+1, int((grid.xmax-0.5)*4)); ys = np.arange(int((grid.ymin+0.5)*4)+1, int((grid.ymax-0.5)*4))
    XQ, YQ = [a.ravel() for a in np.meshgrid(xs, ys)]
    sel = rng.choice(len(XQ), min(40, len(XQ)), replace=False); XQ, YQ = XQ[sel], YQ[sel]
    X, Y = XQ/4., YQ/4.
    sea = grid.atsea(X, Y); XQ, YQ, X, Y = XQ[sea], YQ[sea], X[sea], Y[sea]
    if len(X) == 0: return None
    Z = rng.choice([-5, 0, 5, 10, 15, 20, 25, 30, 35, 40, 50, 60, 70, 85], len(X)).astype(float)
    crashed = None; force = None
    try:
        force = Forcing(dict(time=timer, grid=grid, state=state), f"{work}/f_*.nc", extra_forcing=["temp"])
        state.append(X=X, Y=Y, Z=Z, temp=0.)
        for n in range(timer.Nsteps):
            timer.update(); force.update()
            enc = {}; off = False
            for key, fr in (("0", 0.0), ("1", 0.5), ("2", 1.0)):
                U, V = force.velocity(state.X, state.Y, state.Z, fr)
                for nm, A in (("u"+key, U), ("v"+key, V)):
                    val = np.asarray(A, float)*UNIT*D; nn = np.rint(val); off |= bool(np.any(np.abs(val-nn) > 1e-6*np.maximum(1, np.abs(nn))))
                    enc[nm] = [int(v) for v in nn]
            val = np.asarray(force.variables["u"], float)*UNIT*D; nn = np.rint(val); off |= bool(np.any(np.abs(val-nn) > 1e-6*np.maximum(1, np.abs(nn))))
            out.write(json.dumps(dict(ev="obs", step=int(timer.step), x=[int(v) for v in XQ], y=[int(v) for v in YQ], z=[int(v) for v in Z], den=D, off=off,
                                      uvar=[int(v) for v in nn], temp=[int(round(float(v))) for v in state.temp], **enc))+"\n")
    except BaseException as e:
        tb = traceback.extract_tb(e.__traceback__)[-1]; crashed = "%s: %s @%s:%d" % (type(e).__name__, str(e)[:60], os.path.basename(tb.filename), tb.lineno)
        out.write(json.dumps(dict(ev="crash", what=crashed))+"\n")
    finally:
        try: force.close()
        except Exception: pass
    return crashed
if __name__ == "__main__":
    seed, n = int(sys.argv[1]), int(sys.argv[2]); rng = np.random.default_rng(seed); print(ladim.__file__); cr = {}
    with open(sys.argv[3], "w") as out:
        for tid in range(1, n+1):
            c = one(tid, rng, "/tmp/sx/fwork", out)
            if c: cr.setdefault(c, []).append(tid)
        out.write(json.dumps(dict(ev="eof"))+"\n")
    for k, v in cr.items(): print("CRASH", k, len(v))
