import numpy as np, netCDF4 as nc4
def make_roms(fname, imax=12, jmax=10, N=3, times=(0,60,120,180), t0="2000-01-01 00:00:00", ufun=None, vfun=None, sfun=None, wfun=None,
              mask=None, h=None, dx=100.0, dy=None, hc=10.0, Cs_r=None, Cs_w=None, lon=None, lat=None, pack=None, Vtransform=None):
    """ufun(t,k,x,y) at u-points (x=i+0.5,y=j); vfun at v-points (x=i,y=j+0.5); sfun(t,k,i,j)"""
    dy = dx if dy is None else dy
    nc = nc4.Dataset(fname, "w", format="NETCDF4")
    for d,n in dict(xi_rho=imax, eta_rho=jmax, xi_u=imax-1, eta_u=jmax, xi_v=imax, eta_v=jmax-1, s_rho=N, s_w=N+1).items(): nc.createDimension(d,n)
    nc.createDimension("ocean_time", None)
    v = nc.createVariable("ocean_time", "f8", ("ocean_time",)); v.units = f"seconds since {t0}"; v[:] = np.array(times, float)
    def mk(name, dims, val, dt="f8", **att):
        v = nc.createVariable(name, dt, dims); v[:] = val
        for a,b in att.items(): setattr(v,a,b)
    jj, ii = np.meshgrid(np.arange(jmax), np.arange(imax), indexing="ij")
    mk("h", ("eta_rho","xi_rho"), np.full((jmax,imax),50.0) if h is None else h)
    mk("mask_rho", ("eta_rho","xi_rho"), np.ones((jmax,imax)) if mask is None else mask)
    mk("pm", ("eta_rho","xi_rho"), 1.0/dx); mk("pn", ("eta_rho","xi_rho"), 1.0/dy); mk("angle", ("eta_rho","xi_rho"), 0.0)
    mk("lon_rho", ("eta_rho","xi_rho"), 5 + 0.01*ii + 0.001*jj if lon is None else lon); mk("lat_rho", ("eta_rho","xi_rho"), 60 + 0.005*jj - 0.0005*ii if lat is None else lat)
    mk("hc", (), hc); mk("Cs_r", ("s_rho",), -1 + (0.5+np.arange(N))/N if Cs_r is None else Cs_r); mk("Cs_w", ("s_w",), np.linspace(-1,0,N+1) if Cs_w is None else Cs_w)
    if Vtransform is not None: mk("Vtransform", (), Vtransform, "i4")
    nt = len(times); U = np.zeros((nt,N,jmax,imax-1)); V = np.zeros((nt,N,jmax-1,imax)); S = np.zeros((nt,N,jmax,imax)); W = np.zeros((nt,N+1,jmax,imax))
    for n,t in enumerate(times):
        for k in range(N):
            if ufun: U[n,k] = ufun(t,k, np.arange(imax-1)[None,:]+0.5, np.arange(jmax)[:,None]+0.0)
            if vfun: V[n,k] = vfun(t,k, np.arange(imax)[None,:]+0.0, np.arange(jmax-1)[:,None]+0.5)
            if sfun: S[n,k] = sfun(t,k,ii,jj)
        for k in range(N+1):
            if wfun: W[n,k] = wfun(t,k,ii,jj)
    if pack:
        sf = pack
        mk("u", ("ocean_time","s_rho","eta_u","xi_u"), np.round(U/sf).astype("i2"), "i2", scale_factor=np.float32(sf), add_offset=np.float32(0))
        mk("v", ("ocean_time","s_rho","eta_v","xi_v"), np.round(V/sf).astype("i2"), "i2", scale_factor=np.float32(sf), add_offset=np.float32(0))
    else:
        mk("u", ("ocean_time","s_rho","eta_u","xi_u"), U, "f4"); mk("v", ("ocean_time","s_rho","eta_v","xi_v"), V, "f4")
    if sfun: mk("temp", ("ocean_time","s_rho","eta_rho","xi_rho"), S, "f4")
    if wfun: mk("w", ("ocean_time","s_w","eta_rho","xi_rho"), W, "f4")
    nc.close()
