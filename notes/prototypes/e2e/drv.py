import sys, os, json, glob, shutil, logging, traceback
import numpy as np, yaml, netCDF4 as nc4
HERE = os.path.dirname(os.path.abspath(__file__)); sys.path.insert(0, HERE)
import shim, verif_rec as R
from mk import make_roms
from ladim.main import main
import ladim
logging.disable(logging.CRITICAL)
T0 = np.datetime64("2000-01-01T00:00:00"); iso = lambda s: str(T0 + np.timedelta64(int(s), "s"))
P = os.path.join(HERE, "plug", "rec_%s.py")
def one(tid, rng, work, out):
    shutil.rmtree(work, ignore_errors=True); os.makedirs(work)
    dt, dx = 32, 128; imax, jmax, N = 10, 9, 2
    mask = np.ones((jmax, imax))
    for _ in range(rng.integers(0, 6)): mask[rng.integers(1, jmax-1), rng.integers(1, imax-1)] = 0
    rev = bool(rng.integers(0, 2))
    nfr = int(rng.integers(2, 7)); gaps = rng.choice([1, 2, 2, 3, 4], nfr-1); fsteps = np.concatenate([[0], np.cumsum(gaps)]); times = [int(x)*dt for x in fsteps]
    cuts = sorted(rng.choice(np.arange(1, nfr), rng.integers(0, min(3, nfr-1)+1), replace=False)) if nfr > 1 else []
    files = [tuple(times[a:b]) for a, b in zip([0]+list(cuts), list(cuts)+[nfr])]
    ua, ub, va = rng.integers(-12, 13)/8., rng.integers(-4, 5)/8., rng.integers(-12, 13)/8.
    for n, tt in enumerate(files):
        make_roms(f"{work}/f_{n:02d}.nc", imax=imax, jmax=jmax, N=N, times=tt, mask=mask, h=np.full((jmax, imax), 40.), hc=0.0, dx=float(dx),
                  ufun=lambda t, k, x, y: ua + ub*k + (t//dt % 3)/8. + 0*x + 0*y, vfun=lambda t, k, x, y: va + (t//dt % 2)/8. + 0*x + 0*y)
    a = int(rng.integers(0, fsteps[-1])); b = int(rng.integers(a+1, fsteps[-1]+1)); nsteps = b - a
    start, stop = ((b*dt, a*dt) if rev else (a*dt, b*dt))
    cont = bool(rng.integers(0, 2)); fq = int(rng.choice([1, 2])); freq = fq*dt
    sea = [(i, j) for j in range(2, jmax-2) for i in range(2, imax-2) if mask[j, i] > 0]
    sims = sorted(set(int(x) for x in rng.integers(0, nsteps, rng.integers(1, 4))))
    if cont: sims = sorted(set(sims[0] + ((s - sims[0])//fq)*fq for s in sims))
    rows = []; rid = 0
    for s in sims:
        t = start + (-1 if rev else 1)*s*dt
        for _ in range(rng.integers(1, 3)):
            i, j = sea[rng.integers(len(sea))]; rid += 1
            rows.append(dict(t=int(t), mult=int(rng.integers(0, 3)), id=rid, xf=i + rng.integers(-3, 4)/8., yf=j + rng.integers(-3, 4)/8., zf=float(rng.choice([10., 20., 30.]))))
    open(f"{work}/r.rls", "w").write("mult release_time X Y Z farm\n" + "".join(f"{r['mult']} {iso(r['t'])} {r['xf']} {r['yf']} {r['zf']} {r['id']}\n" for r in rows))
    kill = [[int(s), int(p)] for s, p in zip(rng.integers(0, nsteps, rng.integers(0, 4)), rng.integers(0, 6, 4))]
    killd = {}
    for s, p in kill: killd.setdefault(s, []).append(p)
    ops = int(rng.integers(1, 4)); numrec = int(rng.choice([0, 1, 2, 3])); adv = str(rng.choice(["EF", "RK2", "RK4"]))
    conf = dict(version=2, time=dict(module=P % "time", start=iso(start), stop=iso(stop), dt=dt, reference=iso(-3600)),
        grid=dict(module="ladim.ROMS", filename=f"{work}/f_00.nc"),
        forcing=dict(module=P % "forcing", filename=f"{work}/f_*.nc"),
        tracker=dict(module=P % "tracker", advection=adv),
        state=dict(instance_variables=dict(farm="int")),
        release=dict(module=P % "release", release_file=f"{work}/r.rls", continuous=cont, release_frequency=freq),
        ibm=dict(module=P % "ibm", kill=killd),
        output=dict(module=P % "output", filename=f"{work}/o.nc", output_period=dt*ops, numrec=numrec,
                    instance_variables={v: dict(encoding=dict(datatype=t), attributes={}) for v, t in [("pid", "i4"), ("X", "f8"), ("Y", "f8"), ("Z", "f8")]}))
    if rev: conf["time"]["time_reversal"] = True
    yaml.safe_dump(conf, open(f"{work}/c.yaml", "w"))
    setup = dict(ev="setup", tid=tid, adv=adv,
        clock=dict(start=int(start), stop=int(stop), dt=dt, rev=rev, ref=-3600),
        cfg=dict(start=int(start), stop=int(stop), dt=dt, rev=rev, cont=cont, freq=freq),
        table=[dict(t=r["t"], mult=r["mult"], id=r["id"], x=R.q([r["xf"]])[0], y=R.q([r["yf"]])[0], z=R.q([r["zf"]])[0]) for r in rows],
        grid=dict(i0=1, i1=imax-1, j0=1, j1=jmax-1, dt=dt, dx=dx, dy=dx, mask=mask[1:jmax-1, 1:imax-1].astype(int).tolist()),
        kill=kill, out=dict(ops=ops, numrec=numrec, sparse=True))
    R.EVENTS.clear()
    crashed = None
    try:
        main(f"{work}/c.yaml", loglevel=logging.CRITICAL)
    except SystemExit as e:
        crashed = "SystemExit(%s)" % e.code
    except BaseException as e:
        tb = traceback.extract_tb(e.__traceback__)[-1]; crashed = "%s: %s @%s:%d" % (type(e).__name__, str(e)[:60], os.path.basename(tb.filename), tb.lineno)
    evs = list(R.EVENTS)
    if crashed: evs.append(dict(ev="crash", what=crashed))
    else:
        fl = []
        for f in sorted(glob.glob(f"{work}/o*.nc")):
            with nc4.Dataset(f) as d:
                cnt = np.array(d.variables["particle_count"][:]); tv = np.array(d.variables["time"][:])
                pid = np.array(d.variables["pid"][:]); X = np.array(d.variables["X"][:]); Y = np.array(d.variables["Y"][:])
                recs = []; st = 0
                for n, c in enumerate(cnt):
                    recs.append(dict(time=int(round(float(tv[n]))), pid=[int(p) for p in pid[st:st+c]], x=R.q(X[st:st+c]), y=R.q(Y[st:st+c]))); st += int(c)
                idx = 0 if numrec == 0 else int(os.path.basename(f)[2:5])
                fl.append(dict(idx=idx, recs=recs, ninst=len(pid), sumcount=int(cnt.sum())))
        evs.append(dict(ev="files", files=fl))
    out.write(json.dumps(setup) + "\n")
    for e in evs: out.write(json.dumps(e) + "\n")
    return crashed
if __name__ == "__main__":
    seed, n = int(sys.argv[1]), int(sys.argv[2]); rng = np.random.default_rng(seed)
    print(ladim.__file__)
    crashes = {}
    with open(sys.argv[3], "w") as out:
        for tid in range(1, n+1):
            c = one(tid, rng, "/tmp/sx/e2ework", out)
            if c: crashes.setdefault(c, []).append(tid)
        out.write(json.dumps(dict(ev="eof")) + "\n")
    for k, v in crashes.items(): print("CRASH", k, len(v), v[:5])
