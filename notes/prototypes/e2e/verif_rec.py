"""Shared trace sink for the recording plug-ins (prototype)."""
import numpy as np
EVENTS = []
Q = 1 << 16          # position quantum: 1/65536 cell ; velocity quantum 1/65536 m/s
def q(a): return [int(v) for v in np.rint(np.asarray(a, dtype=float) * Q)]
def emit(ev, **kw): EVENTS.append(dict(ev=ev, **kw))
def snap(state):
    v = state.variables
    return dict(pid=[int(p) for p in v["pid"]], x=q(v["X"]), y=q(v["Y"]), z=q(v["Z"]),
                alive=[bool(a) for a in v["alive"]], active=[bool(a) for a in v["active"]],
                id=[int(i) for i in v["farm"]] if "farm" in v else [])
