---- MODULE LadimTrace ----
EXTENDS Integers, Sequences, FiniteSets, TLC, Json, IOUtils
Tr == ndJsonDeserialize(IOEnv.TRACE_FILE)
VARIABLES l, S, tid, status, pc, step, parts, npid, vels, hist, nclosed
vars == <<l, S, tid, status, pc, step, parts, npid, vels, hist, nclosed>>

Q == 65536
TOL == 3
Abs(x) == IF x < 0 THEN 0 - x ELSE x
Near(a, b) == Abs(a - b) <= TOL
Check(name, c) == IF c THEN TRUE ELSE PrintT(<<"REJECT", tid, l, name>>) /\ FALSE

\* ---------- Release schedule (simulation time), see Release.tla
Sim(c, t) == IF c.rev THEN c.start - t ELSE t - c.start
Dur(c) == Sim(c, c.stop)
Nsteps(c) == Dur(c) \div c.dt
Anchor(c, tb) == Sim(c, tb[1].t)
OnTick(c, tb, s) == s >= Anchor(c, tb) /\ (s - Anchor(c, tb)) % c.freq = 0
Cand(c, tb, s) == { f \in { Sim(c, tb[i].t) : i \in 1..Len(tb) } : f <= s /\ OnTick(c, tb, f) /\ f <= Dur(c) }
ActiveSim(c, tb, s) == CHOOSE f \in Cand(c, tb, s) : \A g \in Cand(c, tb, s) : g <= f
RowsAt(c, tb, f) == SelectSeq(tb, LAMBDA r : Sim(c, r.t) = f)
DeclAt(c, tb, st) ==
   LET s == st * c.dt IN
   IF st < 0 \/ st >= Nsteps(c) THEN <<>>
   ELSE IF ~c.cont THEN RowsAt(c, tb, s)
   ELSE IF OnTick(c, tb, s) /\ Cand(c, tb, s) # {} THEN RowsAt(c, tb, ActiveSim(c, tb, s)) ELSE <<>>
RECURSIVE Expand(_)
Expand(rs) == IF rs = <<>> THEN <<>> ELSE [k \in 1..Head(rs).mult |-> Head(rs)] \o Expand(Tail(rs))

\* ---------- Grid predicates (interval semantics near thresholds)
\* position in Q units. Valid region: xmin + 1/2 < X < xmax - 1/2
InGridSure(g, x, y)  == /\ x > (2*g.i0 + 1) * (Q \div 2) + TOL /\ x < (2*(g.i1 - 1) - 1) * (Q \div 2) - TOL
                        /\ y > (2*g.j0 + 1) * (Q \div 2) + TOL /\ y < (2*(g.j1 - 1) - 1) * (Q \div 2) - TOL
OutGridSure(g, x, y) == \/ x < (2*g.i0 + 1) * (Q \div 2) - TOL \/ x > (2*(g.i1 - 1) - 1) * (Q \div 2) + TOL
                        \/ y < (2*g.j0 + 1) * (Q \div 2) - TOL \/ y > (2*(g.j1 - 1) - 1) * (Q \div 2) + TOL
\* cells a coordinate may belong to (either neighbour within TOL of an edge)
Cells(x) == LET c == (x + Q \div 2) \div Q      \* floor(x/Q + 1/2)
                r == (x + Q \div 2) % Q
            IN IF r <= TOL THEN {c - 1, c} ELSE IF r >= Q - TOL THEN {c, c + 1} ELSE {c}
SeaAt(g, i, j) == g.mask[j - g.j0 + 1][i - g.i0 + 1] > 0
MaybeSea(g, x, y)  == \E i \in Cells(x), j \in Cells(y) : SeaAt(g, i, j)
MaybeLand(g, x, y) == \E i \in Cells(x), j \in Cells(y) : ~SeaAt(g, i, j)

\* ---------- expected outcome of a move for one particle, as a predicate on the logged post state
MoveOK(g, p, u, v, q) ==
   LET cx == p.x + (u * g.dt) \div g.dx
       cy == p.y + (v * g.dt) \div g.dy
       stay == Near(q.x, p.x) /\ Near(q.y, p.y)
       go   == Near(q.x, cx) /\ Near(q.y, cy)
       killed == q.alive = FALSE /\ q.active = FALSE /\ stay
       kept   == q.alive = p.alive /\ q.active = p.active
   IN \/ (~InGridSure(g, cx, cy) /\ killed)
      \/ (~OutGridSure(g, cx, cy) /\ kept /\
            \/ (~p.active /\ stay)
            \/ (p.active /\ MaybeLand(g, cx, cy) /\ stay)
            \/ (p.active /\ MaybeSea(g, cx, cy) /\ go))

\* ---------- helpers on snapshots
SnapSeq(s) == [i \in 1..Len(s.pid) |-> [pid |-> s.pid[i], x |-> s.x[i], y |-> s.y[i], z |-> s.z[i],
                                         alive |-> s.alive[i], active |-> s.active[i], id |-> s.id[i]]]
SamePart(a, b) == a.pid = b.pid /\ Near(a.x, b.x) /\ Near(a.y, b.y) /\ Near(a.z, b.z) /\ a.alive = b.alive /\ a.active = b.active /\ a.id = b.id
SameParts(A, B) == Len(A) = Len(B) /\ \A i \in 1..Len(A) : SamePart(A[i], B[i])
Alive(P) == SelectSeq(P, LAMBDA r : r.alive)
ClockTime(c, st) == IF c.rev THEN c.start - st * c.dt ELSE c.start + st * c.dt

Init == /\ l = 1 /\ S = [none |-> 0] /\ tid = 0 /\ status = "ok" /\ pc = "idle" /\ step = -1
        /\ parts = <<>> /\ npid = 0 /\ vels = <<>> /\ hist = <<>> /\ nclosed = 0

Ev == Tr[l]
Is(e) == l <= Len(Tr) /\ Tr[l].ev = e /\ l' = l + 1
Fail == status' = "rej" /\ UNCHANGED <<S, tid, pc, step, parts, npid, vels, hist, nclosed>>
Skip == status = "rej" /\ l <= Len(Tr) /\ Tr[l].ev # "setup" /\ l' = l + 1 /\ UNCHANGED <<S, tid, status, pc, step, parts, npid, vels, hist, nclosed>>

Setup == /\ Is("setup")
         /\ IF tid > 0 /\ status = "ok" THEN PrintT(<<"ACCEPT", tid>>) ELSE TRUE
         /\ S' = Ev /\ tid' = Ev.tid /\ status' = "ok" /\ pc' = "timer" /\ step' = -1
         /\ parts' = <<>> /\ npid' = 0 /\ vels' = <<>> /\ hist' = <<>> /\ nclosed' = 0

Timer == /\ status = "ok" /\ Is("timer")
         /\ IF /\ Check("timer.pc", pc = "timer")
               /\ Check("timer.step", Ev.step = step + 1)
               /\ Check("timer.time", Ev.time = ClockTime(S.clock, step + 1))
            THEN step' = step + 1 /\ pc' = "release" /\ UNCHANGED <<S, tid, status, parts, npid, vels, hist, nclosed>>
            ELSE Fail


Keep == UNCHANGED <<S, tid, status>>

Release == /\ status = "ok" /\ Is("release")
           /\ LET rows == Expand(DeclAt(S.cfg, S.table, step))
                  new  == [i \in 1..Len(rows) |-> [pid |-> npid + i - 1, x |-> rows[i].x, y |-> rows[i].y, z |-> rows[i].z,
                                                     alive |-> TRUE, active |-> TRUE, id |-> rows[i].id]]
                  got  == SnapSeq(Ev.snap)
              IN IF /\ Check("release.pc", pc = "release")
                    /\ Check("release.step", Ev.step = step)
                    /\ Check("release.count", Len(got) = Len(parts) + Len(rows))
                    /\ Check("release.parts", SameParts(got, parts \o new))
                 THEN parts' = got /\ npid' = npid + Len(rows) /\ pc' = "force" /\ Keep /\ UNCHANGED <<step, vels, hist, nclosed>>
                 ELSE Fail

Force == /\ status = "ok" /\ Is("force")
         /\ IF /\ Check("force.pc", pc = "force")
               /\ Check("force.n", Ev.n = Len(parts) /\ Len(Ev.u) = Len(parts))
            THEN pc' = "output" /\ Keep /\ UNCHANGED <<step, parts, npid, vels, hist, nclosed>>
            ELSE Fail

Due == step % S.out.ops = 0
Output == /\ status = "ok" /\ Is("output")
          /\ IF /\ Check("output.pc", pc = "output")
                /\ Check("output.snap", SameParts(SnapSeq(Ev.snap), parts))
             THEN /\ hist' = IF Due THEN Append(hist, [time |-> ClockTime(S.clock, step) - S.clock.ref, recs |-> Alive(parts)]) ELSE hist
                  /\ parts' = IF Due /\ S.out.sparse THEN Alive(parts) ELSE parts
                  /\ pc' = "move" /\ vels' = <<>> /\ Keep /\ UNCHANGED <<step, npid, nclosed>>
             ELSE Fail

Vel == /\ status = "ok" /\ Is("vel")
       /\ IF Check("vel.pc", pc = "move") THEN vels' = Append(vels, Ev) /\ Keep /\ UNCHANGED <<pc, step, parts, npid, hist, nclosed>> ELSE Fail

Stages == IF S.adv = "EF" THEN 1 ELSE IF S.adv = "RK2" THEN 2 ELSE 4
Clip(v, lo, hi) == IF v < lo THEN lo ELSE IF v > hi THEN hi ELSE v
ClipX(g, x) == Clip(x, g.i0 * Q + 655, (g.i1 - 1) * Q - 655)      \* xmin + 0.01, xmax - 0.01 (0.01*Q ~ 655)
ClipY(g, y) == Clip(y, g.j0 * Q + 655, (g.j1 - 1) * Q - 655)
NearClip(a, b) == Abs(a - b) <= TOL + 1
\* stage k is evaluated at X + c_k * U_{k-1} * dt/dx  (c = 1/2, 1/2, 1), clipped
StageOK(g, P, prev, cur, num, den, frac2) ==
   /\ cur.frac2 = frac2
   /\ Len(cur.x) = Len(P)
   /\ \A i \in 1..Len(P) :
        /\ NearClip(cur.x[i], ClipX(g, P[i].x + (prev.u[i] * g.dt * num) \div (g.dx * den)))
        /\ NearClip(cur.y[i], ClipY(g, P[i].y + (prev.v[i] * g.dt * num) \div (g.dy * den)))
FinalU(i) == IF S.adv = "EF" THEN vels[1].u[i] ELSE IF S.adv = "RK2" THEN vels[2].u[i]
             ELSE (vels[1].u[i] + 2 * vels[2].u[i] + 2 * vels[3].u[i] + vels[4].u[i]) \div 6
FinalV(i) == IF S.adv = "EF" THEN vels[1].v[i] ELSE IF S.adv = "RK2" THEN vels[2].v[i]
             ELSE (vels[1].v[i] + 2 * vels[2].v[i] + 2 * vels[3].v[i] + vels[4].v[i]) \div 6
Move == /\ status = "ok" /\ Is("move")
        /\ LET pre == SnapSeq(Ev.pre)  post == SnapSeq(Ev.post)  g == S.grid IN
           IF /\ Check("move.pc", pc = "move")
              /\ Check("move.pre", SameParts(pre, parts))
              /\ Check("move.ncalls", Len(vels) = Stages)
              /\ Check("move.stage1", vels[1].frac2 = 0 /\ Len(vels[1].x) = Len(parts) /\
                         \A i \in 1..Len(parts) : Near(vels[1].x[i], parts[i].x) /\ Near(vels[1].y[i], parts[i].y))
              /\ Check("move.stages", CASE S.adv = "EF" -> TRUE
                                        [] S.adv = "RK2" -> StageOK(g, parts, vels[1], vels[2], 1, 2, 1)
                                        [] OTHER -> /\ StageOK(g, parts, vels[1], vels[2], 1, 2, 1)
                                                    /\ StageOK(g, parts, vels[2], vels[3], 1, 2, 1)
                                                    /\ StageOK(g, parts, vels[3], vels[4], 1, 1, 2))
              /\ Check("move.ids", Len(post) = Len(pre) /\ \A i \in 1..Len(pre) : post[i].pid = pre[i].pid /\ post[i].id = pre[i].id /\ Near(post[i].z, pre[i].z))
              /\ Check("move.outcome", \A i \in 1..Len(pre) : MoveOK(g, pre[i], FinalU(i), FinalV(i), post[i]))
           THEN parts' = post /\ pc' = "ibm" /\ vels' = <<>> /\ Keep /\ UNCHANGED <<step, npid, hist, nclosed>>
           ELSE Fail

Killed(pid) == \E k \in 1..Len(S.kill) : S.kill[k][1] = step /\ S.kill[k][2] = pid
Ibm == /\ status = "ok" /\ Is("ibm")
       /\ LET pre == SnapSeq(Ev.pre)  post == SnapSeq(Ev.post)
              exp == [i \in 1..Len(parts) |-> [parts[i] EXCEPT !.alive = parts[i].alive /\ ~Killed(parts[i].pid)]]
          IN IF /\ Check("ibm.pc", pc = "ibm")
                /\ Check("ibm.pre", SameParts(pre, parts))
                /\ Check("ibm.post", SameParts(post, exp))
             THEN parts' = post /\ pc' = "timer" /\ Keep /\ UNCHANGED <<step, npid, vels, hist, nclosed>>
             ELSE Fail

Close == /\ status = "ok" /\ Is("close")
         /\ IF Check("close.after_run", pc = "timer" /\ step = Nsteps(S.cfg) - 1)
            THEN nclosed' = nclosed + 1 /\ Keep /\ UNCHANGED <<pc, step, parts, npid, vels, hist>>
            ELSE Fail

\* ---------- files: logged per file: recs = sequence of [time, pid, x, y]
RECURSIVE Concat(_)
Concat(fs) == IF fs = <<>> THEN <<>> ELSE Head(fs).recs \o Concat(Tail(fs))
RecOK(r, h) == /\ r.time = h.time /\ Len(r.pid) = Len(h.recs)
               /\ \A i \in 1..Len(r.pid) : r.pid[i] = h.recs[i].pid /\ Near(r.x[i], h.recs[i].x) /\ Near(r.y[i], h.recs[i].y)
FileSizesOK(fs) == LET n == S.out.numrec IN
   IF n = 0 THEN Len(fs) = 1
   ELSE /\ \A k \in 1..(Len(fs) - 1) : Len(fs[k].recs) = n
        /\ Len(fs) >= 1 /\ Len(fs[Len(fs)].recs) >= 1 /\ Len(fs[Len(fs)].recs) <= n
        /\ \A k \in 1..Len(fs) : fs[k].idx = k - 1
Files == /\ status = "ok" /\ Is("files")
         /\ LET fs == Ev.files  all == Concat(fs) IN
            IF /\ Check("files.closed", nclosed >= 1)
               /\ Check("files.count", Len(all) = Len(hist))
               /\ Check("files.sizes", FileSizesOK(fs))
               /\ Check("files.counts_sum", \A k \in 1..Len(fs) : fs[k].ninst = fs[k].sumcount)
               /\ Check("files.records", \A k \in 1..Len(hist) : RecOK(all[k], hist[k]))
               /\ Check("files.pid_sorted", \A k \in 1..Len(all) : \A i \in 1..(Len(all[k].pid) - 1) : all[k].pid[i] < all[k].pid[i+1])
            THEN pc' = "done" /\ Keep /\ UNCHANGED <<step, parts, npid, vels, hist, nclosed>>
            ELSE Fail

Crash == /\ status = "ok" /\ Is("crash")
         /\ IF Check("run.crashed", FALSE) THEN FALSE ELSE Fail
Eof == /\ Is("eof") /\ (IF tid > 0 /\ status = "ok" THEN PrintT(<<"ACCEPT", tid>>) ELSE TRUE)
       /\ UNCHANGED <<S, tid, status, pc, step, parts, npid, vels, hist, nclosed>>

Next == Eof \/ Setup \/ Timer \/ Release \/ Force \/ Output \/ Vel \/ Move \/ Ibm \/ Close \/ Files \/ Skip \/ Crash
Spec == Init /\ [][Next]_vars
Accepted == TLCGet("stats").diameter - 1 = Len(Tr)
Final == IF status = "ok" /\ l = Len(Tr) + 1 /\ tid > 0 THEN PrintT(<<"ACCEPT", tid>>) ELSE TRUE
====
