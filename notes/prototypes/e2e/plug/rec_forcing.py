from ladim.ROMS import Forcing as _F, Grid
import verif_rec as R
class Forcing(_F):
    def update(self):
        super().update()
        st = self.modules["state"]
        R.emit("force", step=int(self.modules["time"].step), n=len(st), u=R.q(self.variables["u"]), v=R.q(self.variables["v"]))
    def velocity(self, X, Y, Z, fractional_step=0, method="bilinear"):
        out = super().velocity(X, Y, Z, fractional_step=fractional_step, method=method)
        R.emit("vel", x=R.q(X), y=R.q(Y), frac2=int(round(2*fractional_step)), u=R.q(out[0]), v=R.q(out[1]))
        return out
