from ladim.timekeeper import TimeKeeper as _Real
import numpy as np, verif_rec as R
class TimeKeeper(_Real):
    def update(self):
        super().update()
        R.emit("timer", step=int(self.step), time=int((self.time - np.datetime64("2000-01-01T00:00:00")) / np.timedelta64(1, "s")))
