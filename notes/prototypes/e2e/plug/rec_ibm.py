import verif_rec as R
class IBM:
    def __init__(self, modules, **kw):
        self.m = modules; self.kill = {int(k): v for k, v in kw.get("kill", {}).items()}
    def update(self):
        st = self.m["state"]; step = int(self.m["time"].step)
        pre = R.snap(st)
        for pid in self.kill.get(step, []):
            st["alive"][st.pid == pid] = False
        R.emit("ibm", step=step, pre=pre, post=R.snap(st))
    def close(self):
        R.emit("close", mod="ibm")
