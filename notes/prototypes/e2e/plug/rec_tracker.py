from ladim.tracker import Tracker as _Real
import verif_rec as R
class Tracker(_Real):
    def update(self):
        st = self.modules["state"]; pre = R.snap(st)
        super().update()
        R.emit("move", step=int(self.modules["time"].step), pre=pre, post=R.snap(st))
