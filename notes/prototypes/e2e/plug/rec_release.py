from ladim.release import ParticleReleaser as _Real
import verif_rec as R
class ParticleReleaser(_Real):
    def update(self):
        st = self.modules["state"]; n0 = len(st)
        super().update()
        s = R.snap(st)
        R.emit("release", step=int(self.modules["time"].step), n0=n0, snap=s)
