#!/bin/bash
# usage: mutrun.sh name file 'python-replace-old' 'new'
name=$1; file=$2; old=$3; new=$4
rm -rf /tmp/sx/rcm && cp -r /tmp/sx/rc /tmp/sx/rcm
python3 - "$file" "$old" "$new" <<'PY'
import sys
p="/tmp/sx/rcm/ladim/"+sys.argv[1]; s=open(p).read()
old=sys.argv[2].encode().decode("unicode_escape"); new=sys.argv[3].encode().decode("unicode_escape")
assert s.count(old)>=1, "pattern not found"
open(p,"w").write(s.replace(old,new,1))
PY
[ $? -ne 0 ] && { echo "$name: PATTERN NOT FOUND"; exit; }
cd /root/ladim_proto/e2e && PYTHONPATH=/tmp/sx/rcm /venv/bin/python drv.py 5 40 /tmp/sx/e2e_m.ndjson 2>&1 | grep -E "CRASH" | head -3
TRACE_FILE=/tmp/sx/e2e_m.ndjson tlc -workers 1 -metadir /tmp/sx/m7 -noGenerateSpecTE LadimTrace.tla 2>&1 | grep -E "REJECT|ACCEPT|Error" | sed 's/"ACCEPT", [0-9]\+>>/"ACCEPT">>/; s/"REJECT", [0-9]\+, [0-9]\+,/"REJECT",/' | sort | uniq -c | tr '\n' ';'
echo " <= $name"
