---- MODULE Release ----
EXTENDS Integers, Sequences, FiniteSets, TLC
\* Times are integer seconds. cfg: [start, stop, dt, rev, cont, freq]. Table: sequence of rows [t, mult, id] in file order.
\* Simulation time of t:
Sim(c, t) == IF c.rev THEN c.start - t ELSE t - c.start
Dur(c) == Sim(c, c.stop)
Nsteps(c) == Dur(c) \div c.dt
SetToSeq(S) == LET RECURSIVE H(_)
                   H(T) == IF T = {} THEN <<>> ELSE LET m == CHOOSE x \in T : \A y \in T : x <= y IN <<m>> \o H(T \ {m})
               IN H(S)
\* ---------- declarative schedule: function step -> sequence of <<id, mult, reltime>> in file order
FileSims(c, tb) == { Sim(c, tb[i].t) : i \in 1..Len(tb) }
Anchor(c, tb) == Sim(c, tb[1].t)                       \* first file time (table sorted in simulation order)
OnTick(c, tb, s) == (s - Anchor(c, tb)) % c.freq = 0 /\ s >= Anchor(c, tb)
\* the group active at tick s: latest file time f <= s that lies on the tick grid
Cand(c, tb, s) == { f \in FileSims(c, tb) : f <= s /\ OnTick(c, tb, f) /\ f <= Dur(c) }
ActiveSim(c, tb, s) == CHOOSE f \in Cand(c, tb, s) : \A g \in Cand(c, tb, s) : g <= f
RowsAt(c, tb, f) == SelectSeq(tb, LAMBDA r : Sim(c, r.t) = f)
DeclAt(c, tb, step) ==
   LET s == step * c.dt IN
   IF step < 0 \/ step >= Nsteps(c) THEN <<>>
   ELSE IF ~c.cont THEN RowsAt(c, tb, s)
   ELSE IF OnTick(c, tb, s) /\ Cand(c, tb, s) # {} THEN RowsAt(c, tb, ActiveSim(c, tb, s)) ELSE <<>>
Expand(rows) == LET RECURSIVE E(_)
                    E(rs) == IF rs = <<>> THEN <<>> ELSE [k \in 1..Head(rs).mult |-> Head(rs).id] \o E(Tail(rs))
                IN E(rows)
====
