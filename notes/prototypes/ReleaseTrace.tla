---- MODULE ReleaseTrace ----
EXTENDS Release, Json, IOUtils
Tr == ndJsonDeserialize(IOEnv.TRACE_FILE)
VARIABLES l, C, TB
Check(name, c) == IF c THEN TRUE ELSE PrintT(<<"FAIL", l, name>>) /\ FALSE
Init == l = 1 /\ C = [none |-> 0] /\ TB = <<>>
Setup == /\ l <= Len(Tr) /\ Tr[l].ev = "setup" /\ C' = Tr[l].cfg /\ TB' = Tr[l].table /\ l' = l + 1
Rel == /\ l <= Len(Tr) /\ Tr[l].ev = "release"
       /\ LET e == Tr[l] IN Check("ids", e.ids = Expand(DeclAt(C, TB, e.step)))
       /\ l' = l + 1 /\ UNCHANGED <<C, TB>>
Refused == /\ l <= Len(Tr) /\ Tr[l].ev = "refused"
           /\ Check("refuse", \A st \in 0..(Nsteps(C)-1) : Expand(DeclAt(C, TB, st)) = <<>>)
           /\ l' = l + 1 /\ UNCHANGED <<C, TB>>
Next == Setup \/ Rel \/ Refused
Spec == Init /\ [][Next]_<<l, C, TB>>
Accepted == TLCGet("stats").diameter - 1 = Len(Tr)
====
