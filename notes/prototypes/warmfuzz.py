import sys, numpy as np, yaml, netCDF4 as nc4, glob, os, copy, logging, shutil, traceback
import shim
from mk import make_roms
from ladim.main import main
import ladim; print(ladim.__file__)
logging.disable(logging.CRITICAL)
T0 = np.datetime64("2000-01-01T00:00:00"); iso = lambda s: str(T0+np.timedelta64(int(s),"s"))
rng = np.random.default_rng(int(sys.argv[1])); issues = {}
def readall(pat):
    recs = {}
    for f in sorted(glob.glob(pat)):
        with nc4.Dataset(f) as d:
            tv = np.array(d.variables["time"][:]); cnt = np.array(d.variables["particle_count"][:]); st=0
            units = d.variables["time"].units
            ref = np.datetime64(units.split("since")[1].strip())
            for n,c in enumerate(cnt):
                tabs = int((ref + np.timedelta64(int(round(tv[n])),"s") - T0)/np.timedelta64(1,"s"))
                recs[tabs] = dict(file=os.path.basename(f).split("_")[-1], **{v: np.array(d.variables[v][st:st+c]) for v in ("pid","X","Y","Z","age","weight","temp")})
                st += c
            recs.setdefault("_pv", {})[os.path.basename(f).split("_")[-1]] = np.array(d.variables["release_time"][:])
    return recs
for trial in range(int(sys.argv[2])):
    shutil.rmtree("wf", ignore_errors=True); os.makedirs("wf")
    dt=30; imax,jmax,N=10,9,3
    ang = rng.uniform(0,2*np.pi); sp = rng.uniform(0.3,2.0)
    make_roms("wf/f.nc", imax=imax,jmax=jmax,N=N,times=tuple(range(0,1500,90)), ufun=lambda t,k,x,y: sp*np.cos(ang)*(1+0.3*k)+0.0005*t+0*x+0*y, vfun=lambda t,k,x,y: sp*np.sin(ang)+0*x+0*y, sfun=lambda t,k,i,j: 5.+k+0.01*t+0.1*i)
    nsteps = int(rng.integers(6,20)); ops = int(rng.integers(1,4)); numrec = int(rng.integers(1,4))
    cont = bool(rng.integers(0,2)); freq = int(rng.choice([30,60]))
    sims = sorted(set(int(x) for x in rng.integers(0,nsteps,rng.integers(1,4))))
    if cont: sims = sorted(set(sims[0]+((s-sims[0])//(freq//dt))*(freq//dt) for s in sims))
    rows=[]
    for s in sims:
        for _ in range(rng.integers(1,3)): rows.append(f"{rng.integers(1,3)} {iso(s*dt)} {rng.uniform(2.6,6.4):.3f} {rng.uniform(2.6,5.4):.3f} {rng.uniform(0,40):.2f}\n")
    open("wf/r.rls","w").write("mult release_time X Y Z\n"+"".join(rows))
    kill = {int(s)*dt: [int(p) for p in rng.integers(0,8,2)] for s in rng.integers(0,nsteps,rng.integers(0,3))}
    adv = str(rng.choice(["EF","RK2","RK4"]))
    def conf(fname, warm=None):
        c = dict(version=2, time=dict(start=iso(0), stop=iso(nsteps*dt), dt=dt, reference="1999-12-31"),
          forcing=dict(module="ladim.ROMS", filename="wf/f.nc", extra_forcing=["temp"]), tracker=dict(advection=adv),
          state=dict(instance_variables=dict(temp="float", age="float", weight="float"), particle_variables=dict(release_time="time"), default_values=dict(age=0, temp=0, weight=0)),
          release=dict(release_file="wf/r.rls", continuous=cont, release_frequency=freq), ibm=dict(module="age", life=int(rng_life), kill=kill),
          output=dict(filename=fname, output_period=dt*ops, numrec=numrec,
            instance_variables={v: dict(encoding=dict(datatype=t), attributes={}) for v,t in [("pid","i4"),("X","f8"),("Y","f8"),("Z","f8"),("temp","f8"),("age","f8"),("weight","f8")]},
            particle_variables=dict(release_time=dict(encoding=dict(datatype="f8"), attributes=dict(units="seconds since reference_time")))))
        if warm: c["warm_start"]=dict(filename=warm, variables=["release_time","age","weight"]); del c["time"]["start"]
        return c
    rng_life = rng.integers(3,9)
    try:
        yaml.safe_dump(conf("wf/split.nc"), open("wf/c.yaml","w")); main("wf/c.yaml", loglevel=logging.CRITICAL)
    except BaseException as e:
        issues.setdefault(("base run", type(e).__name__, str(e)[:60]),[]).append(trial); continue
    base = readall("wf/split_*.nc")
    files = sorted(glob.glob("wf/split_*.nc"))
    for k,f in enumerate(files[:-1]):
        for g in glob.glob("wf/re_*.nc"): os.remove(g)
        try:
            yaml.safe_dump(conf(f"wf/re_{k+1:03d}.nc", warm=f), open("wf/cw.yaml","w")); main("wf/cw.yaml", loglevel=logging.CRITICAL)
        except BaseException as e:
            tb = traceback.extract_tb(e.__traceback__)[-1]
            with nc4.Dataset(f) as d: npi = len(d.variables["pid"])
            issues.setdefault(("restart run", type(e).__name__, str(e)[:60], os.path.basename(tb.filename), tb.lineno, "warmfile_instances=%d"%min(npi,1)),[]).append((trial,k)); continue
        re = readall("wf/re_*.nc")
        with nc4.Dataset(f) as d:
            u = d.variables["time"].units; ref = np.datetime64(u.split("since")[1].strip()); tlast = int((ref+np.timedelta64(int(round(float(d.variables["time"][-1]))),"s")-T0)/np.timedelta64(1,"s"))
        for t, r in base.items():
            if t == "_pv" or t <= tlast: continue
            if t not in re: issues.setdefault(("missing record",),[]).append((trial,k,t)); continue
            q = re[t]
            if r["file"] != q["file"]: issues.setdefault(("file name differs",),[]).append((trial,k,t,r["file"],q["file"]))
            if len(r["pid"]) != len(q["pid"]) or (r["pid"] != q["pid"]).any(): issues.setdefault(("pid differ",),[]).append((trial,k,t,r["pid"].tolist(),q["pid"].tolist())); continue
            for v in ("X","Y","Z","age","weight","temp"):
                if not np.allclose(r[v], q[v], rtol=1e-9, atol=1e-9): issues.setdefault(("var differ", v),[]).append((trial,k,t, float(np.abs(r[v]-q[v]).max())))
        extra = [t for t in re if t != "_pv" and t not in base and t < nsteps*dt]
        if extra: issues.setdefault(("extra record before stop",),[]).append((trial,k,extra))
        for fn, pv in re["_pv"].items():
            b = base["_pv"].get(fn)
            if b is None: continue
            if len(b)!=len(pv) or not np.allclose(b,pv): issues.setdefault(("pvars differ",),[]).append((trial,k,fn, None if b is None else b.tolist(), pv.tolist()))
for k,v in issues.items(): print(k, len(v), v[:3])
print("done")
