------------------------------ MODULE Frames ------------------------------
(* Forcing in time: frame table, file partition, incremental interpolation. *)
EXTENDS Integers, Sequences, FiniteSets, TLC

\* A layout is a record
\*   fs    : strictly increasing sequence of frame steps (simulation order)
\*   file  : sequence (same length) file id of each frame, non-decreasing (fwd) -- in step order
\*   val   : sequence of velocity values per frame (integers, multiples of 12)
\*   sval  : sequence of scalar values per frame
\*   nsteps: number of steps of the run

Last(s) == s[Len(s)]

\* index of the bracketing frame at or before step s
FloorIdx(L, s) == CHOOSE i \in 1..Len(L.fs) : L.fs[i] <= s /\ (i = Len(L.fs) \/ L.fs[i+1] > s)

\* Declarative: value at rational time (s + fn/fd), scaled by den = 12 (all diffs divide 12)
\* returns numerator over 24  (frac in halves)
Lerp2(L, s2) ==  \* s2 = 2*s + (0|1) : time in half steps ; result scaled by 1 (exact integer since vals multiples of 24)
   LET s  == s2 \div 2
       i  == IF s2 >= 2 * Last(L.fs) THEN Len(L.fs) - 1 ELSE FloorIdx(L, s)
       a  == L.fs[i]  b == L.fs[i+1]
   IN  L.val[i] + ((L.val[i+1] - L.val[i]) * (s2 - 2*a)) \div (2 * (b - a))

Covered(L) == L.fs[1] <= 0 /\ Last(L.fs) >= L.nsteps

\* ---- operational algorithm (intended / repaired) ----
\* state: [cur, new, dU, scal, open, ridx]  ; ridx = index of frame held in `new`
PreIdx(L) == IF \E i \in 1..Len(L.fs) : L.fs[i] < 0
             THEN CHOOSE i \in 1..Len(L.fs) : L.fs[i] < 0 /\ (i = Len(L.fs) \/ L.fs[i+1] >= 0)
             ELSE 1

FInit(L) ==
   LET p == PreIdx(L)
       n == p + 1
       d == (L.val[n] - L.val[p]) \div (L.fs[n] - L.fs[p])
   IN IF L.fs[p] = 0
      THEN [ cur |-> L.val[p], new |-> L.val[p], dU |-> 0, scal |-> L.sval[p], scalFile |-> L.file[p],
             open |-> L.file[p], ridx |-> p, reads |-> <<p>> ]
      ELSE [ cur  |-> L.val[p] - (L.fs[p] + 1) * d,
        new  |-> L.val[n],
        dU   |-> d,
        scal |-> L.sval[p],
        scalFile |-> L.file[p],      \* file that was open when the scalar was read
        open |-> L.file[n],
        ridx |-> n,
        reads |-> <<p, n>> ]

IsFrame(L, s) == \E i \in 1..Len(L.fs) : L.fs[i] = s
IdxOf(L, s) == CHOOSE i \in 1..Len(L.fs) : L.fs[i] = s

FUpdate(F, L, s) ==
   IF IsFrame(L, s)
   THEN LET i == IdxOf(L, s)
            hasNext == i < Len(L.fs)
            d == IF hasNext THEN (L.val[i+1] - F.new) \div (L.fs[i+1] - L.fs[i]) ELSE 0
        IN [ cur |-> F.new, new |-> IF hasNext THEN L.val[i+1] ELSE F.new, dU |-> d,
             scal |-> L.sval[i], scalFile |-> F.open,
             open |-> IF hasNext THEN L.file[i+1] ELSE F.open,
             ridx |-> IF hasNext THEN i+1 ELSE i,
             reads |-> IF hasNext THEN <<i+1>> ELSE <<>> ]
   ELSE [ F EXCEPT !.cur = F.cur + F.dU, !.reads = <<>> ]

=============================================================================
