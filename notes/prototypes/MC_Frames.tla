---------------------------- MODULE MC_Frames ----------------------------
EXTENDS Frames
CONSTANTS LO, HI, MAXFR, MAXFILES
VARIABLES L, F, step


\* Build phase: the layout is grown frame by frame so TLC never materialises the set of layouts
Vals(n) == [i \in 1..n |-> 24 * (i*i + 1)]
SVals(n) == [i \in 1..n |-> 100 + i]
Mk(fs, file, n) == [fs |-> fs, file |-> file, val |-> Vals(Len(fs)), sval |-> SVals(Len(fs)), nsteps |-> n]
VARIABLE phase
Init == /\ phase = "build" /\ \E s \in (0-LO)..0 : L = Mk(<<s>>, <<1>>, 0)
        /\ F = [cur |-> 0] /\ step = -1
AddFrame == /\ phase = "build" /\ Len(L.fs) < MAXFR
            /\ \E gap \in {1,2,3,4}, nf \in {0,1} :
                  /\ Last(L.fs) + gap <= HI
                  /\ Last(L.file) + nf <= MAXFILES
                  /\ L' = Mk(Append(L.fs, Last(L.fs) + gap), Append(L.file, Last(L.file) + nf), 0)
            /\ UNCHANGED <<F, step, phase>>
Start == /\ phase = "build" /\ Len(L.fs) >= 2
         /\ \E n \in 1..HI : /\ Covered(Mk(L.fs, L.file, n))
                              /\ L' = Mk(L.fs, L.file, n)
                              /\ F' = FInit(Mk(L.fs, L.file, n))
         /\ phase' = "run" /\ UNCHANGED step
Run == /\ phase = "run" /\ step < L.nsteps - 1
       /\ step' = step + 1
       /\ F' = FUpdate(F, L, step + 1)
       /\ UNCHANGED <<L, phase>>
Next == AddFrame \/ Start \/ Run
Spec == Init /\ [][Next]_<<L,F,step,phase>>

InterpOK == (phase = "run" /\ step >= 0) => /\ F.cur = Lerp2(L, 2*step)
                         /\ 2*F.cur + F.dU = 2*Lerp2(L, 2*step+1)
                         /\ F.cur + F.dU = Lerp2(L, 2*step+2)
ScalOK == (phase = "run" /\ step >= 0) => F.scal = L.sval[FloorIdx(L, step)]
ScalFileOK == phase = "run" => F.scalFile = L.file[IF step >= 0 THEN FloorIdx(L, step) ELSE PreIdx(L)]
=============================================================================
