CONSTANTS MAXP = 5
 DEPTH = 5
SPECIFICATION Spec
INVARIANT PidsIncreasing
INVARIANT PidGeIndex
INVARIANT TagAligned
INVARIANT PvLen
INVARIANT NeverReused
INVARIANT Emit
CHECK_DEADLOCK FALSE
