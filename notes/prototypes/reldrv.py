import sys, io, json, numpy as np, logging
sys.path.insert(0,"/tmp/sx")
import shim
from ladim.release import ParticleReleaser
from ladim.timekeeper import TimeKeeper
from ladim.state import State
logging.disable(logging.CRITICAL)
T0 = np.datetime64("2000-01-01T00:00:00")
def iso(s): return str(T0 + np.timedelta64(int(s), "s"))
rng = np.random.default_rng(int(sys.argv[1]) if len(sys.argv)>1 else 0)
out = open("/tmp/sx/tla/rel.ndjson","w"); nref=0; nrun=0
for trial in range(int(sys.argv[2]) if len(sys.argv)>2 else 300):
    dt = 30; rev = bool(rng.integers(0,2)) if "fwd" not in sys.argv else False
    cont = bool(rng.integers(0,2)); freq = int(rng.choice([30,60,90]))
    a, b = sorted(rng.choice(np.arange(0, 16), 2, replace=False)*dt + 300)
    start, stop = (b, a) if rev else (a, b)
    ntimes = rng.integers(1,4)
    if cont:
        t0 = int(rng.integers(0, 24))*dt + 60
        ts = [t0] + [t0 + int(k)*(freq if rng.random()<0.8 else dt) for k in sorted(rng.choice(np.arange(1,10), ntimes-1, replace=False))]
    else:
        ts = [int(x)*dt + 60 for x in sorted(rng.choice(np.arange(0, 28), ntimes, replace=False))]
    if rev: ts = [1200 - t for t in ts]   # descending times = simulation order
    rows = []; rid = 0
    for t in ts:
        for _ in range(rng.integers(1,3)):
            rid += 1; rows.append(dict(t=int(t), mult=int(rng.integers(0,3)), id=rid))
    txt = "mult release_time X Y Z farm\n" + "".join(f"{r['mult']} {iso(r['t'])} {r['id']} 1 1 {r['id']}\n" for r in rows)
    cfg = dict(start=int(start), stop=int(stop), dt=dt, rev=rev, cont=cont, freq=freq)
    out.write(json.dumps(dict(ev="setup", cfg=cfg, table=rows))+"\n")
    timer = TimeKeeper(start=iso(start), stop=iso(stop), dt=dt, time_reversal=rev)
    st = State(instance_variables=dict(farm=int))
    try:
        pr = ParticleReleaser(dict(time=timer, state=st, grid=None), io.StringIO(txt), continuous=cont, release_frequency=freq)
    except SystemExit:
        out.write(json.dumps(dict(ev="refused"))+"\n"); nref+=1; continue
    nrun+=1
    for n in range(timer.Nsteps):
        timer.update(); k = len(st); pr.update()
        out.write(json.dumps(dict(ev="release", step=int(timer.step), ids=[int(x) for x in st.farm[k:]]))+"\n")
out.close(); print("refused", nref, "ran", nrun)
