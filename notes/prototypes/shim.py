import pandas as pd
_orig = pd.read_csv
def read_csv(*a, **k):
    if k.pop("delim_whitespace", False): k["sep"] = r"\s+"
    return _orig(*a, **k)
pd.read_csv = read_csv
_of = pd.DataFrame.fillna
def fillna(self, value=None, *, method=None, **k):
    if method == "ffill": return self.ffill()
    return _of(self, value, **k)
pd.DataFrame.fillna = fillna
