---- MODULE IT ----
EXTENDS Integers, Sequences, TLC, Json, IOUtils
Tr == ndJsonDeserialize(IOEnv.TRACE_FILE)
VARIABLE l, S
Check(name, c) == IF c THEN TRUE ELSE PrintT(<<"FAIL", l, name>>) /\ FALSE
Q == 4
\* U table: S.u[k][j][i] (1-based), mask S.mu[j][i]; levels S.zr[k] (uniform column), particle (xq,yq,zq) local coords in quarter cells
Z2S(zr, z) ==  \* z = -depth (negative), returns <<K, an, ad>> with K 1-based upper index (2..N)
   LET N == Len(zr)
       below == { k \in 1..N : zr[k] < z }
       k == IF below = {} THEN 0 ELSE CHOOSE m \in below : \A o \in below : o <= m   \* number of levels strictly below z
   IN IF k = N THEN <<N, 0, 1>> ELSE IF k = 0 THEN <<2, 1, 1>> ELSE <<k+1, zr[k+1] - z, zr[k+1] - zr[k]>>
SampleU(s, xq, yq, zq) ==
   LET ka == Z2S(s.zr, 0 - zq)
       K == ka[1]  an == ka[2]  ad == ka[3]
       xs == xq + Q \div 2
       i == xs \div Q   p == xs % Q
       j == yq \div Q   q == yq % Q
       node(jj, ii) == s.mu[jj+1][ii+1] * (an * s.u[K-1][jj+1][ii+1] + (ad - an) * s.u[K][jj+1][ii+1])
   IN <<(Q-p)*(Q-q)*node(j,i) + p*(Q-q)*node(j,i+1) + (Q-p)*q*node(j+1,i) + p*q*node(j+1,i+1), Q*Q*ad>>
Init == l = 1 /\ S = [none |-> 0]
Setup == /\ l <= Len(Tr) /\ Tr[l].ev = "setup" /\ S' = Tr[l] /\ l' = l + 1
Obs == /\ l <= Len(Tr) /\ Tr[l].ev = "force"
       /\ LET e == Tr[l] IN
            \A n \in 1..Len(e.x) :
               LET r == SampleU(S, e.x[n], e.y[n], e.z[n]) IN
               Check("u", e.un[n] * r[2] = r[1] * e.ud)
       /\ l' = l + 1 /\ UNCHANGED S
Next == Setup \/ Obs
Spec == Init /\ [][Next]_<<l,S>>
Accepted == TLCGet("stats").diameter - 1 = Len(Tr)
====
