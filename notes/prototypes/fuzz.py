import sys, numpy as np, yaml, netCDF4 as nc4, glob, os, traceback, logging, shutil
import shim
from mk import make_roms
from ladim.main import main
import ladim; print(ladim.__file__)
logging.disable(logging.CRITICAL)
T0 = np.datetime64("2000-01-01T00:00:00")
iso = lambda s: str(T0+np.timedelta64(int(s),"s"))
seed = int(sys.argv[1]); rng = np.random.default_rng(seed)
fails = {}
for trial in range(int(sys.argv[2])):
    shutil.rmtree("fz", ignore_errors=True); os.makedirs("fz")
    dt = 30; imax, jmax, N = 10, 9, 3
    mask = np.ones((jmax,imax))
    for _ in range(rng.integers(0,5)): mask[rng.integers(2,jmax-2), rng.integers(2,imax-2)] = 0
    rev = bool(rng.integers(0,2))
    nfr = rng.integers(3,8); gaps = rng.choice([1,2,2,3,4], nfr-1); fsteps = np.concatenate([[0],np.cumsum(gaps)]); times=[int(x)*dt for x in fsteps]
    cuts = sorted(rng.choice(np.arange(1,nfr), rng.integers(0,3), replace=False))
    files = [tuple(times[a:b]) for a,b in zip([0]+list(cuts), list(cuts)+[nfr])]
    ang = rng.uniform(0,2*np.pi); sp = rng.uniform(0.2,2.5)
    for n,tt in enumerate(files):
        make_roms(f"fz/f_{n:02d}.nc", imax=imax,jmax=jmax,N=N,times=tt, mask=mask, h=20+5.*rng.integers(0,5,(jmax,imax)),
                  ufun=lambda t,k,x,y: sp*np.cos(ang)*(1+0.3*k)+0.001*t+0*x+0*y, vfun=lambda t,k,x,y: sp*np.sin(ang)+0*x+0*y,
                  sfun=lambda t,k,i,j: 5.+k+0.01*t+0*i, wfun=lambda t,k,i,j: 0.002*(k-1)+0.*i)
    a = int(rng.integers(0, fsteps[-1])); b = int(rng.integers(a+1, fsteps[-1]+1))
    start, stop = ((b*dt, a*dt) if rev else (a*dt, b*dt)); nsteps = b-a
    cont = bool(rng.integers(0,2)); freq = int(rng.choice([30,60]))
    # release rows in sea cells
    sea = [(i,j) for j in range(2,jmax-2) for i in range(2,imax-2) if mask[j,i]>0]
    nrt = rng.integers(1,4)
    simts = sorted(set(int(x) for x in rng.integers(0, nsteps, nrt)))
    if cont: simts = sorted(set(int(s//(freq//dt))*(freq//dt) for s in simts)); simts = [simts[0]+ (x-simts[0]) for x in simts]
    rows=[]
    for s in simts:
        t = start + (-1 if rev else 1)*s*dt
        for _ in range(rng.integers(1,3)):
            i,j = sea[rng.integers(len(sea))]
            rows.append(f"{rng.integers(0,3)} {iso(t)} {i+rng.uniform(-.4,.4):.3f} {j+rng.uniform(-.4,.4):.3f} {rng.uniform(0,15):.2f} {rng.integers(100,200)}\n")
    open("fz/r.rls","w").write("mult release_time X Y Z farm\n"+"".join(rows))
    kill = {int(s): [int(p) for p in rng.integers(0,6,rng.integers(1,3))] for s in rng.integers(0,nsteps, rng.integers(0,3))}
    ops = int(rng.integers(1,4)); numrec = int(rng.choice([0,1,2,3])); layout = str(rng.choice(["sparse","sparse","dense"]))
    vadv = bool(rng.integers(0,2))
    conf = dict(version=2, time=dict(start=iso(start), stop=iso(stop), dt=dt, reference="1999-12-31"),
      forcing=dict(module="ladim.ROMS", filename="fz/f_*.nc", extra_forcing=["temp","w"]),
      tracker=dict(advection=str(rng.choice(["EF","RK2","RK4"])), diffusion=float(rng.choice([0,0,10.])), vertdiff=float(rng.choice([0,0,0.001])), vertical_advection=vadv),
      state=dict(instance_variables=dict(temp="float", w="float", age="float", lon="float", lat="float"), particle_variables=dict(release_time="time", farm="int"), default_values=dict(age=0, temp=0, w=0, lon=0, lat=0)),
      release=dict(release_file="fz/r.rls", continuous=cont, release_frequency=freq), ibm=dict(module="killer", kill=kill),
      output=dict(filename="fz/o.nc", output_period=dt*ops, numrec=numrec, layout=layout,
        instance_variables={v: dict(encoding=dict(datatype=t), attributes={}) for v,t in [("pid","i4"),("X","f8"),("Y","f8"),("Z","f8"),("temp","f8"),("lon","f8"),("lat","f8")]},
        particle_variables=dict(release_time=dict(encoding=dict(datatype="f8"), attributes=dict(units="seconds since reference_time")), farm=dict(encoding=dict(datatype="i4"), attributes={}))))
    if rev: conf["time"]["time_reversal"]=True
    yaml.safe_dump(conf, open("fz/c.yaml","w"))
    try:
        main("fz/c.yaml", loglevel=logging.CRITICAL)
        # basic file checks
        outs = sorted(glob.glob("fz/o*.nc")); alltimes=[]
        for f in outs:
            with nc4.Dataset(f) as d:
                tv = list(np.array(d.variables["time"][:])); alltimes += tv
                if layout=="sparse":
                    pc = np.array(d.variables["particle_count"][:]); pid = np.array(d.variables["pid"][:])
                    assert pc.sum()==len(pid), "count sum"
                    st=0
                    for c in pc:
                        seg = pid[st:st+c]; assert np.all(np.diff(seg)>0), "pid order"; assert np.all(seg>=np.arange(c)), "pid>=k"; st+=c
        exp = [ (start + (-1 if rev else 1)*k*dt) + 86400 for k in range(0,nsteps,ops)]
        assert [round(x) for x in alltimes]==exp, ("times", alltimes, exp)
    except SystemExit as e:
        key=("SystemExit",str(e.code)); fails.setdefault(key,[]).append(trial)
    except BaseException as e:
        tb = traceback.extract_tb(e.__traceback__)[-1]
        key=(type(e).__name__, str(e)[:70], os.path.basename(tb.filename), tb.lineno); fails.setdefault(key,[]).append((trial, layout, cont, rev))
for k,v in fails.items(): print(k, len(v), v[:4])
print("done")
