CONSTANTS LO = 2
 HI = 9
 MAXFR = 6
 MAXFILES = 4
SPECIFICATION Spec
INVARIANT InterpOK
INVARIANT ScalOK
INVARIANT ScalFileOK
CHECK_DEADLOCK FALSE
