---- MODULE Pstate ----
EXTENDS Integers, Sequences, FiniteSets, TLC, Json
CONSTANTS MAXP, DEPTH
VARIABLES inst, pv, npid, hist
\* inst: sequence of records [pid, alive, tag, age] ; pv: sequence indexed by pid+1 of tags ; tag = birth tag
vars == <<inst, pv, npid, hist>>
Init == inst = <<>> /\ pv = <<>> /\ npid = 0 /\ hist = <<>>
PAppend(n, mode) ==
   /\ npid + n <= MAXP /\ Len(hist) < DEPTH
   /\ LET new == [i \in 1..n |-> [pid |-> npid + i - 1, alive |-> TRUE, tag |-> 100 + npid + i - 1, age |-> IF mode = "default" THEN 0 ELSE 7]]
      IN /\ inst' = inst \o new
         /\ pv' = pv \o [i \in 1..n |-> 100 + npid + i - 1]
   /\ npid' = npid + n
   /\ hist' = Append(hist, [op |-> "append", n |-> n, mode |-> mode])
Kill(i) == /\ i \in 1..Len(inst) /\ inst[i].alive /\ Len(hist) < DEPTH
           /\ inst' = [inst EXCEPT ![i].alive = FALSE]
           /\ hist' = Append(hist, [op |-> "kill", i |-> i - 1])
           /\ UNCHANGED <<pv, npid>>
Compactify == /\ Len(hist) < DEPTH
              /\ inst' = SelectSeq(inst, LAMBDA r : r.alive)
              /\ hist' = Append(hist, [op |-> "compactify"])
              /\ UNCHANGED <<pv, npid>>
SetAge == /\ Len(hist) < DEPTH /\ Len(inst) > 0
          /\ inst' = [i \in 1..Len(inst) |-> [inst[i] EXCEPT !.age = @ + 1]]
          /\ hist' = Append(hist, [op |-> "incage"])
          /\ UNCHANGED <<pv, npid>>
Next == \/ \E n \in 1..2, m \in {"default", "array", "scalar"} : PAppend(n, m)
        \/ \E i \in 1..MAXP : Kill(i)
        \/ Compactify \/ SetAge
Spec == Init /\ [][Next]_vars
\* properties
PidsIncreasing == \A i \in 1..(Len(inst)-1) : inst[i].pid < inst[i+1].pid
PidGeIndex == \A i \in 1..Len(inst) : inst[i].pid >= i - 1
TagAligned == \A i \in 1..Len(inst) : inst[i].tag = pv[inst[i].pid + 1] /\ inst[i].tag = 100 + inst[i].pid
PvLen == Len(pv) = npid
NeverReused == \A i \in 1..Len(inst) : inst[i].pid < npid
Emit == Len(hist) = DEPTH => PrintT(<<"BEH", ToJson([hist |-> hist, inst |-> inst, pv |-> pv, npid |-> npid])>>)
====
