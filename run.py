#!/venv/bin/python
"""CLI of the LADiM2 model-based verification machinery.

  run.py check <Cnn> [--tier quick|thorough] [--seed N]
  run.py replay <replays/Cnn/file.json>
  run.py setup          (tool-chain self test: SANY on every module, import of /repo)

Exit codes: 0 property held on everything explored (known findings are printed, not raised);
            1 with a line 'VIOLATION property=<id> replay=<path>';  2 machinery failure (never a violation).
"""
import argparse
import importlib
import json
import os
import subprocess
import sys
import traceback

ROOT = os.path.dirname(os.path.abspath(__file__))
sys.path.insert(0, ROOT)
os.environ.setdefault("PYTHONHASHSEED", "0")
os.environ["PYTHONDONTWRITEBYTECODE"] = "1"
os.environ.setdefault("BJORNAA_LADIM2_VERIF", "1")


def cmd_check(a):
    from harness import tlc
    tier = a.tier or os.environ.get("VERIF_TIER") or "quick"
    seed = a.seed if a.seed is not None else int(os.environ.get("VERIF_SEED", "20260927"))
    try:
        mod = importlib.import_module(f"harness.checks.{a.prop.lower()}")
        rep = mod.run(tier, seed)
        return rep.finish()
    except tlc.MachineryError as e:
        print(f"MACHINERY-FAILURE {a.prop}: {e}", file=sys.stderr)
        return 2
    except Exception:
        traceback.print_exc()
        print(f"MACHINERY-FAILURE {a.prop}: unexpected exception", file=sys.stderr)
        return 2


def cmd_replay(a):
    from harness import replay
    return replay.replay(a.path)


def cmd_setup(_a):
    import shutil
    import tempfile
    spec = os.path.join(ROOT, "spec")
    bad = 0
    jtmp = tempfile.mkdtemp(prefix="lv_sany_")          # the tools leave an empty tlc-<n> directory per start in java.io.tmpdir
    env = dict(os.environ, JAVA_TOOL_OPTIONS=(os.environ.get("JAVA_TOOL_OPTIONS", "") + " -Djava.io.tmpdir=" + jtmp).strip())
    for f in sorted(os.listdir(spec)):
        if f.endswith(".tla"):
            p = subprocess.run(["tla-sany", f], cwd=spec, capture_output=True, text=True, env=env)
            if p.returncode != 0 or "Semantic errors" in p.stdout or "***Parse Error***" in p.stdout or "Fatal" in p.stdout:
                print("SANY failed:", f, p.stdout[-400:])
                bad += 1
    shutil.rmtree(jtmp, ignore_errors=True)
    p = subprocess.run(["/venv/bin/python", "-c", "import ladim, sys; print(ladim.__file__)"], capture_output=True, text=True)
    print("ladim:", p.stdout.strip().splitlines()[-1] if p.stdout.strip() else p.stderr[-300:])
    if "/repo/" not in p.stdout:
        bad += 1
    json.load(open(os.path.join(ROOT, "MANIFEST.json")))
    json.load(open(os.path.join(ROOT, "known_findings.json")))
    try:                                                                    # the proofs, strictly
        from harness import tlc
        r = tlc.prove(strict=True)
        print(f"proofs: {r['discharged']}/{r['obligations']} obligations discharged (stretch {r['stretch_used']})")
    except Exception as e:  # noqa: BLE001
        print("proofs FAILED:", str(e)[:300])
        bad += 1
    p = subprocess.run([os.path.join(ROOT, "tools", "clause_owners.py")], capture_output=True, text=True)     # no clause without an owning check
    if p.returncode != 0:
        print(p.stdout[-1500:])
        bad += 1
    print("setup", "FAILED" if bad else "ok")
    return 1 if bad else 0


if __name__ == "__main__":
    ap = argparse.ArgumentParser()
    sub = ap.add_subparsers(dest="cmd", required=True)
    c = sub.add_parser("check"); c.add_argument("prop"); c.add_argument("--tier"); c.add_argument("--seed", type=int)
    r = sub.add_parser("replay"); r.add_argument("path")
    sub.add_parser("setup")
    a = ap.parse_args()
    sys.exit({"check": cmd_check, "replay": cmd_replay, "setup": cmd_setup}[a.cmd](a))
