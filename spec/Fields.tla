------------------------------- MODULE Fields -------------------------------
(* Formula families that describe forcing fields to the specification without node tables (DESIGN 5.2).
   The drivers evaluate the same formulas to WRITE the input files; the specification evaluates them to
   compute what the forcing must return.  Velocity unit: 1/1024 m/s, node values multiples of 24.      *)
EXTENDS Integers
\* frame f, level k (0-based), index (j, i) in the global u- or v-array, component c (0 = u, 1 = v)
Node(fm, f, k, j, i, c) == 24 * (((fm.a * i + fm.b * j + fm.c * k + fm.d * f * f + fm.e * i * j + 17 * c) % 97) - 48)
\* scalar at rho cell (j, i): injective on small grids
Scal(f, k, j, i) == 1000 * f + 100 * k + 10 * j + i
=============================================================================
