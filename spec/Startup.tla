------------------------------- MODULE Startup -------------------------------
(* Which set-ups can be simulated faithfully (C20).  A set-up description d (integers, booleans, sequences):
     clock  : [start, stop, dt, rev] with has : [start, stop, dt] telling which entries the configuration gives
     frames : forcing frame times in file order (files in name order), nframes > 0 iff some forcing file is found
     table  : release rows [t, mult]; haspos: every row has a position (X, Y or lon, lat)
     files  : [config, grid, forcing, release, warm] - TRUE iff the file named in the configuration exists
     sections : [time, forcing, tracker, release, output] - TRUE iff the mandatory section is present
     sub    : [given, i0, i1, j0, j1, imax, jmax] sub-rectangle request on a grid of imax x jmax rho cells
   Valid(d) is the conjunction of what the property lists; everything else must be refused at start-up.   *)
EXTENDS Release

FramesSorted(fr) == \A i \in 1..(Len(fr) - 1) : fr[i] < fr[i + 1]                      \* out of order / duplicated: not sorted
Lo(c) == IF c.start < c.stop THEN c.start ELSE c.stop
Hi(c) == IF c.start < c.stop THEN c.stop ELSE c.start
FramesCover(fr, c) == Len(fr) > 0 /\ fr[1] <= Lo(c) /\ fr[Len(fr)] >= Hi(c)
ClockGiven(d) == d.has.start /\ d.has.stop /\ d.has.dt
\* negative limits count from the upper end of the grid
FromEnd(v, n) == IF v < 0 THEN n + v ELSE v
SubgridLegal(s) == ~s.given \/ LET i0 == FromEnd(s.i0, s.imax)  i1 == FromEnd(s.i1, s.imax)  j0 == FromEnd(s.j0, s.jmax)  j1 == FromEnd(s.j1, s.jmax)
                               IN 1 <= i0 /\ i0 < i1 /\ i1 <= s.imax - 1 /\ 1 <= j0 /\ j0 < j1 /\ j1 <= s.jmax - 1
FilesPresent(d) == d.files.config /\ d.files.grid /\ d.files.forcing /\ d.files.release /\ d.files.warm
SectionsPresent(d) == d.sections.time /\ d.sections.forcing /\ d.sections.tracker /\ d.sections.release /\ d.sections.output
Valid(d) ==
   /\ FilesPresent(d) /\ SectionsPresent(d)
   /\ ClockGiven(d) /\ ValidClock(d.clock) /\ d.clock.start # d.clock.stop
   /\ FramesSorted(d.frames) /\ FramesCover(d.frames, d.clock)
   /\ d.haspos /\ ~NoRowInWindow(d.cfg, d.table)
   /\ SubgridLegal(d.sub)
\* the named reasons, for the evidence (which clause of Valid fails)
Reasons(d) == {r \in {"files", "sections", "clock_given", "clock_direction", "frames_sorted", "frames_cover", "positions", "release_window", "subgrid"} :
   CASE r = "files" -> ~FilesPresent(d) [] r = "sections" -> ~SectionsPresent(d) [] r = "clock_given" -> ~ClockGiven(d)
     [] r = "clock_direction" -> ClockGiven(d) /\ (~ValidClock(d.clock) \/ d.clock.start = d.clock.stop)
     [] r = "frames_sorted" -> ~FramesSorted(d.frames) [] r = "frames_cover" -> ClockGiven(d) /\ ~FramesCover(d.frames, d.clock)
     [] r = "positions" -> ~d.haspos [] r = "release_window" -> ClockGiven(d) /\ ValidClock(d.clock) /\ NoRowInWindow(d.cfg, d.table)
     [] r = "subgrid" -> ~SubgridLegal(d.sub)}
=============================================================================
