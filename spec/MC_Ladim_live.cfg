CONSTANTS MAXKILL = 1
 MAXPID = 3
 W = 4
 NSTEPS = 5
 CacheMode = "state"
 Layout = "sparse"
 CompactMode = "output"
 NpidMode = "count"
SPECIFICATION FairSpec
PROPERTY Terminates
PROPERTY AllRecordsWritten
CHECK_DEADLOCK FALSE
