---------------------------- MODULE GeoTrace ----------------------------
(* Trace validation of the real sample2D, Grid.xy2ll / ll2xy and the releaser's lon/lat conversion against Geo.tla (C16).
   setup carries the lon / lat node tables (integers, unit 2^-10 degree) of the GLOBAL grid and the loaded sub-rectangle. *)
EXTENDS Geo, TLC, Json, IOUtils
Tr == ndJsonDeserialize(IOEnv.TRACE_FILE)
VARIABLES l, tid, status, S
vars == <<l, tid, status, S>>
Ev == Tr[l]
Is(e) == l <= Len(Tr) /\ Tr[l].ev = e /\ l' = l + 1
Check(name, c) == c \/ (PrintT(<<"REJECT", tid, l, name>>) /\ FALSE)
All(t) == \A i \in DOMAIN t : t[i]
Verdict == IF tid > 0 /\ status = "ok" THEN PrintT(<<"ACCEPT", tid>>) ELSE TRUE
Mark(ok) == status' = IF ok THEN status ELSE "rej"
Abs(x) == IF x < 0 THEN 0 - x ELSE x
Init == l = 1 /\ tid = 0 /\ status = "ok" /\ S = [none |-> 0]
Setup == Is("setup") /\ Verdict /\ tid' = Ev.tid /\ status' = "ok" /\ S' = Ev
Eof == Is("eof") /\ Verdict /\ UNCHANGED <<tid, status, S>>

\* --- sample2D on an integer field: result logged as round(res * L), L = lcm(1..16)
L == 720720
S2D == /\ Is("s2d")
       /\ LET r == Sample2D(Ev.F, Ev.M, Ev.masked, Ev.x, Ev.y, Ev.Q) IN
          Mark(All(<<Check("s2d.lattice", ~Ev.off),
                     Check("s2d.outside_raises", (r.kind = "outside" /\ ~Ev.hasout) => Ev.raised),
                     Check("s2d.inside_no_error", (r.kind # "outside" \/ Ev.hasout) => ~Ev.raised),
                     Check("s2d.outside_value", (r.kind = "outside" /\ Ev.hasout /\ ~Ev.raised) => Ev.res = Ev.outval * L),
                     Check("s2d.undef_value", (r.kind = "undef" /\ ~Ev.raised) => Ev.res = Ev.undef * L),
                     Check("s2d.value", (r.kind = "value" /\ ~Ev.raised) => Ev.res * r.den = r.num * L)>>))
       /\ UNCHANGED <<tid, S>>

\* --- xy2ll: exact bilinear value of the coordinate tables (unit 2^-10 deg) at a lattice position, times Q*Q
XY2LL == /\ Is("xy2ll")
         /\ LET Q == Ev.Q
                rl == BilinGlobal(S.lon, Ev.x, Ev.y, Q)   ra == BilinGlobal(S.lat, Ev.x, Ev.y, Q) IN
            Mark(All(<<Check("xy2ll.lattice", ~Ev.off),
                       Check("xy2ll.lon", rl.kind = "value" /\ Ev.lon * rl.den = rl.num * Q * Q),
                       Check("xy2ll.lat", ra.kind = "value" /\ Ev.lat * ra.den = ra.num * Q * Q)>>))
         /\ UNCHANGED <<tid, S>>

\* --- Grid.lonlat(method = nearest): the coordinate table's value at the cell that contains the position (either neighbour on a cell edge);
\*     unit 2^-10 deg.  (method = bilinear is logged as an ordinary xy2ll event.)
NearCells(v, Q) == { (2 * v + Q - 1) \div (2 * Q), (2 * v + Q) \div (2 * Q) }
LLNearest == /\ Is("llnearest")
             /\ Mark(All(<<Check("xy2ll.lattice", ~Ev.off),
                           Check("lonlat.nearest_cell", \E ci \in NearCells(Ev.x, Ev.Q), cj \in NearCells(Ev.y, Ev.Q) :
                                     cj + 1 \in DOMAIN S.lon /\ ci + 1 \in DOMAIN S.lon[cj + 1] /\ Ev.lon = S.lon[cj + 1][ci + 1] /\ Ev.lat = S.lat[cj + 1][ci + 1])>>))
             /\ UNCHANGED <<tid, S>>
\* --- onland is the complement of atsea
LandSea == /\ Is("landsea")
           /\ Mark(Check("grid.onland_is_not_atsea", Len(Ev.land) = Len(Ev.sea) /\ \A k \in 1..Len(Ev.sea) : Ev.land[k] = ~Ev.sea[k]))
           /\ UNCHANGED <<tid, S>>

\* --- round trip: position (2^-16 cell) -> lon/lat -> position ; residual in lon/lat (2^-20 deg) below the solver
\*     tolerance  (dlon^2 + dlat^2 < 1e-7 deg^2  =  109951 quanta^2).  The solver tolerance is stated in degrees; with cells of
\*     >= 8/1024 degree it corresponds to at most ~0.05 cell, so the position clause (1/8 cell) only catches gross errors
TolQ == 109951 + 4096
Round == /\ Is("roundtrip")
         /\ Mark(All(<<Check("roundtrip.finite", ~Ev.bad),
                       Check("roundtrip.lonlat_residual", (Ev.lon1 - Ev.lon0) * (Ev.lon1 - Ev.lon0) + (Ev.lat1 - Ev.lat0) * (Ev.lat1 - Ev.lat0) <= TolQ),
                       Check("roundtrip.position", Abs(Ev.x1 - Ev.x0) <= 8192 /\ Abs(Ev.y1 - Ev.y0) <= 8192)>>))
         /\ UNCHANGED <<tid, S>>

\* --- a particle released by lon/lat sits where the interpolated lon/lat are the given ones; lon/lat written with a
\*     record are the bilinear interpolation at X, Y of the same record (all 2^-20 deg; positions 2^-16 cell)
\* bilinear interpolation of a 2^-10 table at a 2^-16 position, result in 2^-20 deg:  value * 2^10 / (2^16)^2
Interp20(T, x, y) ==
   LET Qb == 256                                    \* evaluate at 2^-8 cell resolution to stay inside 32 bits
       r == BilinGlobal(T, x \div 256, y \div 256, Qb)
   IN r.num \div 64                                 \* den = 2^16 (no mask): num * 2^10 / 2^16 ; tables are relative to a base
Same20(a, b) == Abs(a - b) <= 2048                  \* 1/512 deg-quantum slack: 2^-8 cell rounding times the cell spacing
LLRel == /\ Is("llrelease")
         /\ Mark(All(<<Check("llrelease.finite", ~Ev.bad),
                       Check("llrelease.lon", \A k \in 1..Len(Ev.x) : Same20(Interp20(S.lon, Ev.x[k], Ev.y[k]), Ev.lon[k])),
                       Check("llrelease.lat", \A k \in 1..Len(Ev.x) : Same20(Interp20(S.lat, Ev.x[k], Ev.y[k]), Ev.lat[k]))>>))
         /\ UNCHANGED <<tid, S>>
LLOut == /\ Is("llrecord")
         /\ Mark(All(<<Check("llrecord.finite", ~Ev.bad),
                       Check("llrecord.len", Len(Ev.lon) = Len(Ev.x) /\ Len(Ev.lat) = Len(Ev.x)),
                       Check("llrecord.lon", Len(Ev.lon) = Len(Ev.x) => \A k \in 1..Len(Ev.x) : Same20(Interp20(S.lon, Ev.x[k], Ev.y[k]), Ev.lon[k])),
                       Check("llrecord.lat", Len(Ev.lat) = Len(Ev.x) => \A k \in 1..Len(Ev.x) : Same20(Interp20(S.lat, Ev.x[k], Ev.y[k]), Ev.lat[k]))>>))
         /\ UNCHANGED <<tid, S>>
Crash == Is("crash") /\ Mark(Check("run.crashed", FALSE)) /\ UNCHANGED <<tid, S>>
Next == Setup \/ Eof \/ S2D \/ XY2LL \/ Round \/ LLRel \/ LLOut \/ Crash \/ LLNearest \/ LandSea
Spec == Init /\ [][Next]_vars
Accepted == TLCGet("stats").diameter - 1 = Len(Tr)
=============================================================================
