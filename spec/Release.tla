------------------------------- MODULE Release -------------------------------
(* Particle release schedule (ladim/release.py, ParticleReleaser).
   cfg  c  = [start, stop, dt, rev, cont, freq]            integer seconds
   table tb = sequence of rows [t, mult, ...payload] in file order, sorted in simulation order.
   Declarative schedule  DeclAt(c, tb, step)  : rows released at a model step (file-row order).
   Operational schedule  Op*                  : the algorithm shaped like the implementation (filter <= stop,
   ticks + forward fill, filter >= start, group cursor).  MC_Release checks Op = Decl.              *)
EXTENDS Clock, Sequences, FiniteSets

\* ------------------------------------------------------------------ declarative (simulation time)
Anchor(c, tb)    == Sim(c, tb[1].t)                                   \* first file time
OnTick(c, tb, s) == s >= Anchor(c, tb) /\ (s - Anchor(c, tb)) % c.freq = 0
Cand(c, tb, s)   == { f \in { Sim(c, tb[i].t) : i \in 1..Len(tb) } : f <= s /\ OnTick(c, tb, f) /\ f <= Dur(c) }
ActiveSim(c, tb, s) == CHOOSE f \in Cand(c, tb, s) : \A g \in Cand(c, tb, s) : g <= f
RowsAt(c, tb, f) == SelectSeq(tb, LAMBDA r : Sim(c, r.t) = f)
DeclAt(c, tb, step) ==
   LET s == step * c.dt IN
   IF tb = <<>> \/ step < 0 \/ s >= Dur(c) THEN <<>>                            \* window [start, stop)
   ELSE IF ~c.cont THEN RowsAt(c, tb, s)
   ELSE IF OnTick(c, tb, s) /\ s < Dur(c) /\ Cand(c, tb, s) # {} THEN RowsAt(c, tb, ActiveSim(c, tb, s)) ELSE <<>>
RECURSIVE Expand(_)
Expand(rs) == IF rs = <<>> THEN <<>> ELSE [k \in 1..Head(rs).mult |-> Head(rs)] \o Expand(Tail(rs))
\* a set-up that releases nothing inside the window must be refused at start-up (C20)
EmptySchedule(c, tb) == \A st \in 0..(Nsteps(c) - 1) : DeclAt(c, tb, st) = <<>>
\* rows at all in the window (the implementation refuses on rows, not on particles: mult = 0 rows count)
NoRowInWindow(c, tb) == EmptySchedule(c, tb)

\* when the stop time is not on the step grid, rows in the last partial interval [start + Nsteps dt, stop) are inside the
\* window in time but their step is never executed by a cold run; a set-up whose only rows sit there may be accepted
TailRelease(c, tb) == DeclAt(c, tb, Nsteps(c)) # <<>>

\* ------------------------------------------------------------------ operational (real time, as the code)
Before(c, a, b)   == IF c.rev THEN a > b ELSE a < b                      \* a strictly earlier than b in simulation order
BeforeEq(c, a, b) == a = b \/ Before(c, a, b)
RECURSIVE Uniq(_, _)
Uniq(ts, seen) == IF ts = <<>> THEN <<>> ELSE IF Head(ts) \in seen THEN Uniq(Tail(ts), seen)
                  ELSE <<Head(ts)>> \o Uniq(Tail(ts), seen \cup {Head(ts)})
Times(tb) == Uniq([i \in 1..Len(tb) |-> tb[i].t], {})
FilterStop(c, tb)  == SelectSeq(tb, LAMBDA r : Before(c, r.t, c.stop))            \* window [start, stop)
FilterStart(c, tb) == SelectSeq(tb, LAMBDA r : BeforeEq(c, c.start, r.t))
RECURSIVE Ticks(_, _)
Ticks(c, t) == IF Before(c, t, c.stop) THEN <<t>> \o Ticks(c, IF c.rev THEN t - c.freq ELSE t + c.freq) ELSE <<>>
Retime(rows, t) == [i \in 1..Len(rows) |-> [rows[i] EXCEPT !.t = t]]
RECURSIVE Fill(_, _, _)
Fill(tb, ticks, prev) ==                                   \* join on tick time, forward fill, explode
   IF ticks = <<>> THEN <<>>
   ELSE LET here == SelectSeq(tb, LAMBDA r : r.t = Head(ticks))
            grp  == IF here = <<>> THEN prev ELSE here
        IN Retime(grp, Head(ticks)) \o Fill(tb, Tail(ticks), grp)
Discretize(c, tb) == Fill(tb, Ticks(c, tb[1].t), <<>>)
OpTable(c, tb) ==                                          \* <<refused, table>>
   LET a == FilterStop(c, tb) IN
   IF a = <<>> THEN <<TRUE, <<>>>>
   ELSE LET b == IF c.cont THEN Discretize(c, a) ELSE a
            d == FilterStart(c, b)
        IN <<d = <<>>, d>>
OpSteps(c, d)  == LET ts == Times(d) IN [i \in 1..Len(ts) |-> TimeToStep(c, ts[i])]
OpGroups(d)    == LET ts == Times(d) IN [i \in 1..Len(ts) |-> SelectSeq(d, LAMBDA r : r.t = ts[i])]   \* in table order
\* one update(): release the group under the cursor when the step is a release step
OpUpdate(c, d, idx, step) ==
   IF \E i \in 1..Len(OpSteps(c, d)) : OpSteps(c, d)[i] = step
   THEN <<IF idx <= Len(OpGroups(d)) THEN OpGroups(d)[idx] ELSE <<>>, idx + 1>>
   ELSE <<<<>>, idx>>
=============================================================================
