CONSTANTS QP = 4
 QZ = 1
 NI = 6
 NJ = 5
 DMAX = 5
 HMAX = 2
SPECIFICATION Spec
INVARIANT StaysInWater
PROPERTY DeadStayDead
PROPERTY InactiveNotMoved
PROPERTY KilledNotMoved
PROPERTY InColumn
CHECK_DEADLOCK FALSE
