------------------------------- MODULE Interp -------------------------------
(* Sampling of staggered C-grid fields at particle positions (ladim/ROMS.py: sample3DUV, trilinear, sample3D,
   Grid.Mu/Mv, sub-rectangle offsets).  Horizontal positions are integers in units of 1/Q cell.
   Grid g = [i0, i1, j0, j1, M]: loaded sub-rectangle [i0,i1) x [j0,j1) of the global rho mask M (rows j).
   Declarative (global indices) and operational (local array indices, as the code) forms; MC_Interp checks
   that they agree and that the operational indices stay inside the loaded arrays (C02, C17).        *)
EXTENDS Integers, Sequences, FiniteSets

Sea(g, j, i)      == g.M[j + 1][i + 1] > 0
InLoaded(g, j, i) == i >= g.i0 /\ i < g.i1 /\ j >= g.j0 /\ j < g.j1
\* u-face between rho cells (j,i) and (j,i+1): open iff both loaded cells are sea (faces on the edge of the loaded
\* rectangle: the inner cell only).  v-face between (j,i) and (j+1,i) alike.
UFaceOpen(g, j, i) == (InLoaded(g, j, i) => Sea(g, j, i)) /\ (InLoaded(g, j, i + 1) => Sea(g, j, i + 1))
VFaceOpen(g, j, i) == (InLoaded(g, j, i) => Sea(g, j, i)) /\ (InLoaded(g, j + 1, i) => Sea(g, j + 1, i))
FaceOpen(g, c, j, i) == IF c = 0 THEN UFaceOpen(g, j, i) ELSE VFaceOpen(g, j, i)

\* the particle's own cell: nearest rho point; at an exact cell edge either neighbour is acceptable (EdgeCell)
OwnCells(xq, Q) == LET c == (2 * xq + Q) \div (2 * Q)   r == (2 * xq + Q) % (2 * Q) IN IF r = 0 THEN {c - 1, c} ELSE {c}

\* valid region of the loaded grid (Grid.ingrid) and the region RK stage positions are clipped to (margin m/Q cell)
InValid(g, xq, yq, Q)   == /\ 2 * xq > (2 * g.i0 + 1) * Q /\ 2 * xq < (2 * g.i1 - 3) * Q
                           /\ 2 * yq > (2 * g.j0 + 1) * Q /\ 2 * yq < (2 * g.j1 - 3) * Q
InClipped(g, xq, yq, Q) == /\ xq > g.i0 * Q /\ xq < (g.i1 - 1) * Q
                           /\ yq > g.j0 * Q /\ yq < (g.j1 - 1) * Q

\* ---- declarative: four corners in GLOBAL staggered-array indices with bilinear weights (sum = Q*Q) -----------
\* u-points sit at x = i + 1/2, v-points at y = j + 1/2
Corners(xq, yq, Q, c) ==
   LET xs == IF c = 0 THEN xq - Q \div 2 ELSE xq
       ys == IF c = 1 THEN yq - Q \div 2 ELSE yq
       i == xs \div Q   p == xs % Q
       j == ys \div Q   q == ys % Q
   IN << [j |-> j, i |-> i, w |-> (Q - p) * (Q - q)], [j |-> j, i |-> i + 1, w |-> p * (Q - q)],
         [j |-> j + 1, i |-> i, w |-> (Q - p) * q],   [j |-> j + 1, i |-> i + 1, w |-> p * q] >>

\* ---- operational: LOCAL indices into the loaded arrays, as the implementation computes them ------------------
\* U is loaded as u[:, j0:j1, i0-1:i1]  (width imax+1),  V as v[:, j0-1:j1, i0:i1]  (height jmax+1)
LocalCorners(g, xq, yq, Q, c) ==
   LET xl == xq - g.i0 * Q + (IF c = 0 THEN Q \div 2 ELSE 0)        \* X - i0 (+ 0.5 for u)
       yl == yq - g.j0 * Q + (IF c = 1 THEN Q \div 2 ELSE 0)
       i == xl \div Q   p == xl % Q
       j == yl \div Q   q == yl % Q
   IN << [j |-> j, i |-> i, w |-> (Q - p) * (Q - q)], [j |-> j, i |-> i + 1, w |-> p * (Q - q)],
         [j |-> j + 1, i |-> i, w |-> (Q - p) * q],   [j |-> j + 1, i |-> i + 1, w |-> p * q] >>
\* global staggered index of a local one
ToGlobal(g, c, r) == IF c = 0 THEN [r EXCEPT !.j = r.j + g.j0, !.i = r.i + g.i0 - 1]
                     ELSE [r EXCEPT !.j = r.j + g.j0 - 1, !.i = r.i + g.i0]
\* shape of the loaded staggered arrays
LocalShape(g, c) == IF c = 0 THEN [nj |-> g.j1 - g.j0, ni |-> g.i1 - g.i0 + 1] ELSE [nj |-> g.j1 - g.j0 + 1, ni |-> g.i1 - g.i0]
InsideLocal(g, c, r) == LET s == LocalShape(g, c) IN r.i >= 0 /\ r.i < s.ni /\ r.j >= 0 /\ r.j < s.nj
\* the local face masks Mu / Mv computed from the loaded rho mask
LocalFaceOpen(g, c, r) ==
   LET imax == g.i1 - g.i0   jmax == g.j1 - g.j0
       M(jl, il) == Sea(g, g.j0 + jl, g.i0 + il)
   IN IF c = 0
      THEN IF r.i = 0 THEN M(r.j, 0) ELSE IF r.i = imax THEN M(r.j, imax - 1) ELSE M(r.j, r.i - 1) /\ M(r.j, r.i)
      ELSE IF r.j = 0 THEN M(0, r.i) ELSE IF r.j = jmax THEN M(jmax - 1, r.i) ELSE M(r.j - 1, r.i) /\ M(r.j, r.i)
=============================================================================
