------------------------------- MODULE Pstate -------------------------------
(* The particle state (ladim/state.py, State) as a struct of arrays, shaped like the implementation:
     iv : instance arrays  [pid, alive, tag, age, mark]  (one entry per particle instance; compactified)
     pv : particle arrays  [ptag]                  (indexed by pid; never compactified)
     npid : number of identifiers handed out
   `tag` / `ptag` carry a birth tag 100 + pid: "values follow the particle" becomes checkable.
   `age` is an ordinary instance variable updated through item assignment.                       *)
EXTENDS Integers, Sequences, FiniteSets

Tag(p) == 100 + p
Range(s) == { s[i] : i \in DOMAIN s }
Mask(s, m) ==                       \* s[m] of numpy: keep the entries whose mask is TRUE, in order
   LET idx == SelectSeq([i \in 1..Len(s) |-> i], LAMBDA i : m[i])
   IN [k \in 1..Len(idx) |-> s[idx[k]]]

Empty == [iv |-> [pid |-> <<>>, alive |-> <<>>, tag |-> <<>>, age |-> <<>>, mark |-> <<>>], pv |-> [ptag |-> <<>>], npid |-> 0]
Len_(st) == Len(st.iv.pid)

\* append n particles; `ages` is the broadcast result for the instance variable age (length n)
Append_(st, n, ages) ==
   LET new == [i \in 1..n |-> st.npid + i - 1] IN
   [iv |-> [pid   |-> st.iv.pid \o new,
            alive |-> st.iv.alive \o [i \in 1..n |-> TRUE],
            tag   |-> st.iv.tag \o [i \in 1..n |-> Tag(new[i])],
            age   |-> st.iv.age \o ages,
            mark  |-> st.iv.mark \o [i \in 1..n |-> 0]],
    pv |-> [ptag |-> st.pv.ptag \o [i \in 1..n |-> Tag(new[i])]],
    npid |-> st.npid + n]
Kill_(st, i)   == [st EXCEPT !.iv.alive[i] = FALSE]
KillMany_(st, I) == [st EXCEPT !.iv.alive = [i \in 1..Len(@) |-> IF i \in I THEN FALSE ELSE @[i]]]      \* a whole set of positions at once (tracker, IBM)
\* operational compactify: one masked copy per instance variable with a *copy* of the alive mask
Compactify_(st) == LET m == st.iv.alive IN
   [st EXCEPT !.iv = [pid |-> Mask(st.iv.pid, m), alive |-> Mask(st.iv.alive, m),
                      tag |-> Mask(st.iv.tag, m), age |-> Mask(st.iv.age, m), mark |-> Mask(st.iv.mark, m)]]
IncAge_(st)    == [st EXCEPT !.iv.age = [i \in 1..Len(st.iv.age) |-> st.iv.age[i] + 1]]
\* one variable assigned from another (state["mark"] = state["age"]): a copy of the values, not a shared array ...
CopyAge_(st)   == [st EXCEPT !.iv.mark = st.iv.age]
\* ... so that a later in-place change of one entry of `age` leaves `mark` alone
Bump_(st, i)   == [st EXCEPT !.iv.age[i] = @ + 1]

\* ---- the properties (C05) as predicates on a state ------------------------------------------------
EqualLen(st)       == \A f \in {"alive", "tag", "age", "mark"} : Len(st.iv[f]) = Len(st.iv.pid)
PidsIncreasing(st) == \A i \in 1..(Len_(st) - 1) : st.iv.pid[i] < st.iv.pid[i + 1]
PidGeIndex(st)     == \A i \in 1..Len_(st) : st.iv.pid[i] >= i - 1
PidsBelowNpid(st)  == \A i \in 1..Len_(st) : st.iv.pid[i] < st.npid
TagFollows(st)     == /\ \A i \in 1..Len_(st) : st.iv.tag[i] = Tag(st.iv.pid[i])
                      /\ Len(st.pv.ptag) = st.npid
                      /\ \A p \in 1..st.npid : st.pv.ptag[p] = Tag(p - 1)
\* declarative compactify: exactly the living instances, in the same order, all arrays alike
IsCompaction(a, b) ==
   LET keep == { i \in 1..Len_(a) : a.iv.alive[i] } IN
   /\ Len_(b) = Cardinality(keep) /\ EqualLen(b)
   /\ \A k \in 1..Len_(b) : b.iv.alive[k]
   /\ \A i \in keep : LET k == Cardinality({ j \in keep : j <= i })
                      IN b.iv.pid[k] = a.iv.pid[i] /\ b.iv.tag[k] = a.iv.tag[i] /\ b.iv.age[k] = a.iv.age[i] /\ b.iv.mark[k] = a.iv.mark[i]
   /\ b.pv = a.pv /\ b.npid = a.npid
=============================================================================
