----------------------------- MODULE MC_Tableau -----------------------------
(* Order conditions of the tableaux the trace specification binds the tracker to (C01): the scheme named `adv` has
   exactly order Order(adv).  "Converges with order p" is a theorem about these tableaux; conformance of every stage
   (LadimTrace: move.stages, move.displacement) transfers it to the code.                              *)
EXTENDS Tableau, TLC
VARIABLE adv
Init == adv \in {"EF", "RK2", "RK4"}
Spec == Init /\ [][UNCHANGED adv]_adv
St == 1..NStages(adv)
c(i) == IF i \in St THEN C2(adv, i) ELSE 0
b(i) == IF i \in St THEN W6(adv, i) ELSE 0
a(i, j) == IF i \in St /\ j \in St THEN A2(adv, i, j) ELSE 0
Sum1(F(_)) == F(1) + F(2) + F(3) + F(4)
Sum2(F(_, _)) == LET G(i) == F(i, 1) + F(i, 2) + F(i, 3) + F(i, 4) IN Sum1(G)
Sum3(F(_, _, _)) == LET G(i, j) == F(i, j, 1) + F(i, j, 2) + F(i, j, 3) + F(i, j, 4) IN Sum2(G)
\* consistency: row sums  c_k = sum_j a_kj
RowSums == \A k \in St : LET F(j) == a(k, j) IN Sum1(F) = c(k)
O1 == LET F(i) == b(i) IN Sum1(F) = 6
O2 == LET F(i) == b(i) * c(i) IN Sum1(F) = 6
O3a == LET F(i) == b(i) * c(i) * c(i) IN Sum1(F) = 8
O3b == LET F(i, j) == b(i) * a(i, j) * c(j) IN Sum2(F) = 4
O4a == LET F(i) == b(i) * c(i) * c(i) * c(i) IN Sum1(F) = 12
O4b == LET F(i, j) == b(i) * c(i) * a(i, j) * c(j) IN Sum2(F) = 6
O4c == LET F(i, j) == b(i) * a(i, j) * c(j) * c(j) IN Sum2(F) = 4
O4d == LET F(i, j, k) == b(i) * a(i, j) * a(j, k) * c(k) IN Sum3(F) = 2
HasOrder(p) == /\ (p >= 1 => O1) /\ (p >= 2 => O2) /\ (p >= 3 => O3a /\ O3b) /\ (p >= 4 => O4a /\ O4b /\ O4c /\ O4d)
FamilyOrder2 == \A sn \in 1..4, sd \in 1..4 : (2 * sn >= sd) => Fam2Order2(sn, sd)
OrderExact == FamilyOrder2 /\ RowSums /\ HasOrder(Order(adv)) /\ (Order(adv) < 4 => ~HasOrder(Order(adv) + 1))
=============================================================================
