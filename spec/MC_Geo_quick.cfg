CONSTANTS NIc = 4
 NJc = 4
 Q = 4
 VALS = {0, 3}
SPECIFICATION Spec
INVARIANT ExactOnBilinear
INVARIANT OutsideLaw
INVARIANT Convex
INVARIANT MaskedIgnored
INVARIANT UndefLaw
CHECK_DEADLOCK FALSE
