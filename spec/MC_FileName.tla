---------------------------- MODULE MC_FileName ----------------------------
(* All stems up to MAXLEN characters over a small alphabet (letters, "_", digits that also occur in counters).
   Laws of the documented numbering:
     Distinct     the files of one run have different names
     Consecutive  the k-th file carries the number start + k, and a stem with its own counter is the first file
     Chain        a later run configured with the name of the k-th file (the restart chain) continues the same
                  sequence: same base, same width while the number fits, next numbers
     KeepsBase    the part in front of the counter is never altered (no character of the base is lost)      *)
EXTENDS FileName, TLC
CONSTANTS MAXLEN, MAXK
VARIABLE p
Alphabet == {"a", "_", "0", "1", "9"}
Init == \E c \in Alphabet : p = <<c>>
Grow == Len(p) < MAXLEN /\ \E c \in Alphabet : p' = Append(p, c)
Next == Grow
Spec == Init /\ [][Next]_p

Distinct == \A j \in 0..MAXK, k \in 0..MAXK : j # k => SplitName(p, j) # SplitName(p, k)
Consecutive == /\ \A k \in 0..MAXK : NumberOf(Stem(p, k)) = StartNo(p) + k
               /\ HasCounter(p) => Stem(p, 0) = p
KeepsBase == \A k \in 0..MAXK : LET s == Stem(p, k) IN SubSeq(s, 1, Len(Base(p))) = Base(p) /\ s[Len(Base(p)) + 1] = "_"
                                                    /\ \A i \in (Len(Base(p)) + 2)..Len(s) : IsDig(s[i])
Chain == \A k \in 0..MAXK, j \in 0..MAXK : LET q == Stem(p, k) IN
            /\ Base(q) = Base(p) /\ StartNo(q) = StartNo(p) + k
            /\ (Len(NumDigits(StartNo(p) + k + j)) <= Width(p) \/ Width(q) >= Width(p)) => Stem(q, j) = Stem(p, k + j)
=============================================================================
