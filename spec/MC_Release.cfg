CONSTANTS TMAX = 5
 MAXROWS = 4
 MAXMULT = 2
 FREQS = {1, 2, 3}
SPECIFICATION Spec
PROPERTY OpIsDecl
INVARIANT RefuseIffEmpty
INVARIANT TotalLaw
INVARIANT CursorInRange
CHECK_DEADLOCK FALSE
