----------------------------- MODULE MC_Clock -----------------------------
(* Exhaustive check of the clock laws (C13, C10) for all clocks in a bound: the incrementally kept clock
   equals the closed form in both directions, conversions are mutual inverses on step boundaries,
   Nsteps is the floor, every step of the run lies in [start, stop) in simulation time.            *)
EXTENDS Clock, TLC
CONSTANTS TMAX, DTS, REFS
VARIABLES c, k
vars == <<c, k>>

Clocks == { x \in [start : 0..TMAX, stop : 0..TMAX, dt : DTS, rev : BOOLEAN, ref : REFS, hasref : BOOLEAN] : ValidClock(x) }
Init == c \in Clocks /\ k = ClockInit(c)
Tick == k.step <= Nsteps(c) /\ k' = ClockTick(c, k) /\ UNCHANGED c
Next == Tick
Spec == Init /\ [][Next]_vars

TimeLaw    == k.time = ClockTime(c, k.step)                                   \* start +- n dt
InverseLaw == TimeToStep(c, k.time) = k.step                                  \* step -> time -> step
FloorLaw   == \A t \in (0 - 3)..(TMAX + 3) :                                  \* time -> step is the floor
                 LET n == TimeToStep(c, t) IN Sim(c, ClockTime(c, n)) <= Sim(c, t) /\ Sim(c, t) < Sim(c, ClockTime(c, n + 1))
NstepsLaw  == Nsteps(c) * c.dt <= Dur(c) /\ Dur(c) < (Nsteps(c) + 1) * c.dt
WindowLaw  == (k.step >= 0 /\ k.step < Nsteps(c)) => (Sim(c, k.time) >= 0 /\ Sim(c, k.time) < Dur(c))
NcLaw      == NcNum(c, k.step) = k.time - (IF c.hasref THEN c.ref ELSE IF c.rev THEN c.stop ELSE c.start)
MirrorLaw  == \* a reversed clock is the forward clock of the mirrored axis (C10)
              LET m == [start |-> TMAX - c.start, stop |-> TMAX - c.stop, dt |-> c.dt, rev |-> ~c.rev, ref |-> c.ref, hasref |-> c.hasref]
              IN (c.start # c.stop) => /\ ValidClock(m) /\ Nsteps(m) = Nsteps(c)
                                       /\ ClockTime(m, k.step) = TMAX - ClockTime(c, k.step)
                                       /\ \A t \in 0..TMAX : TimeToStep(m, TMAX - t) = TimeToStep(c, t)
=============================================================================
