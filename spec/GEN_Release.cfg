CONSTANTS TMAX = 4
 MAXROWS = 3
 MAXMULT = 1
 FREQS = {1, 2}
SPECIFICATION Spec
INVARIANT EmitScenario
CHECK_DEADLOCK FALSE
