------------------------------- MODULE Period -------------------------------
(* Spellings of a time period (ladim/timekeeper.py, normalize_period).
   A spelling is a record with a field `kind`:
     [kind |-> "int",  v |-> n]                      n seconds
     [kind |-> "td",   v |-> n]                      datetime.timedelta(seconds = n)
     [kind |-> "td64", v |-> n, u |-> unit]          numpy.timedelta64(n, unit)
     [kind |-> "list", items |-> <<item, ...>>]      YAML list; item = [t |-> "int"|"float"|"str"|"other", v, s]
     [kind |-> "iso",  toks |-> <<"P","T","1","0","M">>]   string, one token per character
     [kind |-> "other"]                              anything else (None, float, ...)
   Secs(sp) is the denoted duration in seconds, or Reject.                                         *)
EXTENDS Integers, Sequences

Reject == -1

Digit == {"0", "1", "2", "3", "4", "5", "6", "7", "8", "9"}
DigitVal(t) == CASE t = "0" -> 0 [] t = "1" -> 1 [] t = "2" -> 2 [] t = "3" -> 3 [] t = "4" -> 4
                 [] t = "5" -> 5 [] t = "6" -> 6 [] t = "7" -> 7 [] t = "8" -> 8 [] t = "9" -> 9

\* ---- operational: a left-to-right scanner, shaped like the anchored pattern PT(\d+H)?(\d+M)?(\d+S)? ----
RECURSIVE Num(_, _, _)
Num(s, i, acc) == IF i <= Len(s) /\ s[i] \in Digit THEN Num(s, i + 1, acc * 10 + DigitVal(s[i])) ELSE <<acc, i>>
\* optional group "<digits><letter>" at position i: <<present, value, next position>>
Group(s, i, letter) == LET r == Num(s, i, 0)
                       IN IF r[2] > i /\ r[2] <= Len(s) /\ s[r[2]] = letter
                          THEN <<TRUE, r[1], r[2] + 1>> ELSE <<FALSE, 0, i>>
IsoSecs(s) ==
   IF Len(s) < 2 \/ s[1] # "P" \/ s[2] # "T" THEN Reject
   ELSE LET h == Group(s, 3, "H")
            m == Group(s, h[3], "M")
            x == Group(s, m[3], "S")
        IN IF x[3] = Len(s) + 1 /\ (h[1] \/ m[1] \/ x[1]) THEN h[2] * 3600 + m[2] * 60 + x[2] ELSE Reject

\* ---- declarative: the language  PT g_H g_M g_S  with each g empty or digits+letter, not all empty ----
AllDigits(s)   == \A i \in 1..Len(s) : s[i] \in Digit
RECURSIVE Val(_)
Val(s)         == IF s = <<>> THEN 0 ELSE Val(SubSeq(s, 1, Len(s) - 1)) * 10 + DigitVal(s[Len(s)])
IsGroup(g, letter) == g = <<>> \/ (Len(g) >= 2 /\ g[Len(g)] = letter /\ AllDigits(SubSeq(g, 1, Len(g) - 1)))
GVal(g)        == IF g = <<>> THEN 0 ELSE Val(SubSeq(g, 1, Len(g) - 1))
IsoDecl(s) ==
   IF Len(s) < 3 \/ s[1] # "P" \/ s[2] # "T" THEN Reject
   ELSE LET body == SubSeq(s, 3, Len(s))
            n == Len(body)
            cuts == { c \in (0..n) \X (0..n) : c[1] <= c[2] /\
                        IsGroup(SubSeq(body, 1, c[1]), "H") /\ IsGroup(SubSeq(body, c[1] + 1, c[2]), "M")
                        /\ IsGroup(SubSeq(body, c[2] + 1, n), "S") }
        IN IF cuts = {} THEN Reject
           ELSE LET c == CHOOSE c \in cuts : TRUE
                IN GVal(SubSeq(body, 1, c[1])) * 3600 + GVal(SubSeq(body, c[1] + 1, c[2])) * 60
                   + GVal(SubSeq(body, c[2] + 1, n))

\* ---- formatting a duration (duration2iso): P[nD][T[nH][nM][nS]], zero is PT0S ------------------------------------
DigitTok(d) == CASE d = 0 -> "0" [] d = 1 -> "1" [] d = 2 -> "2" [] d = 3 -> "3" [] d = 4 -> "4"
                 [] d = 5 -> "5" [] d = 6 -> "6" [] d = 7 -> "7" [] d = 8 -> "8" [] d = 9 -> "9"
RECURSIVE Digits(_)
Digits(n) == IF n < 10 THEN <<DigitTok(n)>> ELSE Digits(n \div 10) \o <<DigitTok(n % 10)>>
Part(n, letter) == IF n = 0 THEN <<>> ELSE Digits(n) \o <<letter>>
FormatIso(secs) ==
   IF secs = 0 THEN <<"P", "T", "0", "S">>
   ELSE LET d == secs \div 86400   r == secs % 86400
            h == r \div 3600   m == (r % 3600) \div 60   x == r % 60
        IN <<"P">> \o Part(d, "D") \o (IF r = 0 THEN <<>> ELSE <<"T">>) \o Part(h, "H") \o Part(m, "M") \o Part(x, "S")
\* reading such a string back: optional day group before the optional time part
IsoSecsD(s) ==
   IF Len(s) < 2 \/ s[1] # "P" THEN Reject
   ELSE LET d == Group(s, 2, "D")
        IN IF d[3] = Len(s) + 1 THEN (IF d[1] THEN d[2] * 86400 ELSE Reject)
           ELSE IF s[d[3]] # "T" THEN Reject
           ELSE LET h == Group(s, d[3] + 1, "H")   m == Group(s, h[3], "M")   x == Group(s, m[3], "S")
                IN IF x[3] = Len(s) + 1 /\ (h[1] \/ m[1] \/ x[1]) THEN d[2] * 86400 + h[2] * 3600 + m[2] * 60 + x[2] ELSE Reject

ListUnitSecs(u) == CASE u = "s" -> 1 [] u = "m" -> 60 [] u = "h" -> 3600 [] OTHER -> 0
ListSecs(items) == IF Len(items) = 2 /\ items[1].t = "int" /\ items[2].t = "str" /\ ListUnitSecs(items[2].s) > 0
                   THEN items[1].v * ListUnitSecs(items[2].s) ELSE Reject

Secs(sp) == CASE sp.kind = "int"  -> sp.v
              [] sp.kind = "td"   -> sp.v
              [] sp.kind = "td64" -> sp.v * ListUnitSecs(sp.u)
              [] sp.kind = "list" -> ListSecs(sp.items)
              [] sp.kind = "iso"  -> IsoSecs(sp.toks)
              [] OTHER -> Reject
=============================================================================
