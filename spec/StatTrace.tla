---------------------------- MODULE StatTrace ----------------------------
(* Seeded statistics of random-walk clouds taken through the real Tracker (C11 residue): z-scores (in 1/1000 of
   the standard error) of mean, variance, U-V covariance and lag-1 covariance must lie inside 6 sigma bands.      *)
EXTENDS Integers, Sequences, TLC, Json, IOUtils
Tr == ndJsonDeserialize(IOEnv.TRACE_FILE)
VARIABLES l, tid, status, S
vars == <<l, tid, status, S>>
Ev == Tr[l]
Is(e) == l <= Len(Tr) /\ Tr[l].ev = e /\ l' = l + 1
Check(name, c) == c \/ (PrintT(<<"REJECT", tid, l, name>>) /\ FALSE)
All(t) == \A i \in DOMAIN t : t[i]
Verdict == IF tid > 0 /\ status = "ok" THEN PrintT(<<"ACCEPT", tid>>) ELSE TRUE
Mark(ok) == status' = IF ok THEN status ELSE "rej"
In6(z) == z >= -6000 /\ z <= 6000
Init == l = 1 /\ tid = 0 /\ status = "ok" /\ S = [none |-> 0]
Setup == Is("setup") /\ Verdict /\ tid' = Ev.tid /\ status' = "ok" /\ S' = Ev
Eof == Is("eof") /\ Verdict /\ UNCHANGED <<tid, status, S>>
Stat == /\ Is("stat")
        /\ Mark(All(<<Check("stat.mean_unbiased", In6(Ev.mx) /\ In6(Ev.my) /\ (S.Dz1000 > 0 => In6(Ev.mz))),
                      Check("stat.variance_2Dt", In6(Ev.vx) /\ In6(Ev.vy)),
                      Check("stat.variance_2Dzt", In6(Ev.vz)),
                      Check("stat.directions_independent", In6(Ev.cxy)),
                      Check("stat.steps_independent", In6(Ev.lag)),
                      Check("stat.deterministic_when_off", (S.D1000 = 0 => (Ev.mx = 0 /\ Ev.my = 0)) /\ (S.Dz1000 = 0 => Ev.mz = 0))>>))
        /\ UNCHANGED <<tid, S>>
Crash == Is("crash") /\ Mark(Check("run.crashed", FALSE)) /\ UNCHANGED <<tid, S>>
Next == Setup \/ Eof \/ Stat \/ Crash
Spec == Init /\ [][Next]_vars
Accepted == TLCGet("stats").diameter - 1 = Len(Tr)
=============================================================================
