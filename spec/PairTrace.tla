---------------------------- MODULE PairTrace ----------------------------
(* Relations between the outputs of paired runs of the real model (C08 restart, C10 mirror, C14 independence /
   reproducibility / time shift, C18 spellings).  Each run is first validated on its own by LadimTrace; here TLC
   decides the relation.  A run is a record [recs, idx, pvrt, pvsrc]:
     recs : sequence of [time, parts]  parts = sequence of [key, pid, x, y, z, age, farm, hx]
            (key = release row and occurrence number: identifies a particle across runs with different numbering;
             hx = digest of the raw bytes of the particle's values in that record: the bit-for-bit clauses)
     idx  : file numbers, pvrt / pvsrc : particle variables by pid.                                        *)
EXTENDS Integers, Sequences, FiniteSets, TLC, Json, IOUtils
Tr == ndJsonDeserialize(IOEnv.TRACE_FILE)
VARIABLES l, tid, status, S, A
vars == <<l, tid, status, S, A>>
Ev == Tr[l]
Is(e) == l <= Len(Tr) /\ Tr[l].ev = e /\ l' = l + 1
Check(name, c) == c \/ (PrintT(<<"REJECT", tid, l, name>>) /\ FALSE)
All(t) == \A i \in DOMAIN t : t[i]
Verdict == IF tid > 0 /\ status = "ok" THEN PrintT(<<"ACCEPT", tid>>) ELSE TRUE
Mark(ok) == status' = IF ok THEN status ELSE "rej"

Times(R) == { R.recs[k].time : k \in 1..Len(R.recs) }
RecAt(R, t) == R.recs[CHOOSE k \in 1..Len(R.recs) : R.recs[k].time = t]
Parts(r) == { r.parts[i] : i \in 1..Len(r.parts) }
\* same particle values (bit for bit through the digest); identifiers only where the relation preserves numbering
PartEq(p, q, withPid) == /\ (IF withPid THEN p.pid = q.pid ELSE p.key = q.key)
                         /\ p.x = q.x /\ p.y = q.y /\ p.z = q.z /\ p.age = q.age /\ p.hx = q.hx
\* every particle of record rb (not excluded) has its twin in ra
Covered(ra, rb, withPid, excl) == \A p \in Parts(rb) : (p.farm \notin excl) => \E q \in Parts(ra) : PartEq(q, p, withPid)
RecEq(ra, rb, withPid, excl) == Covered(ra, rb, withPid, excl) /\ Covered(rb, ra, withPid, excl)
\* B's records (at the times selected by keep) equal A's records at the mapped times
Related(B, tmap(_), keep(_), withPid, excl) ==
   \A k \in 1..Len(B.recs) : keep(B.recs[k].time) =>
       /\ tmap(B.recs[k].time) \in Times(A)
       /\ RecEq(RecAt(A, tmap(B.recs[k].time)), B.recs[k], withPid, excl)
PvEq(B, n) == /\ Len(B.pvsrc) >= n /\ Len(A.pvsrc) >= n /\ Len(B.pvrt) >= n /\ Len(A.pvrt) >= n
              /\ \A p \in 1..n : B.pvsrc[p] = A.pvsrc[p] /\ B.pvrt[p] = A.pvrt[p]
Min(a, b) == IF a < b THEN a ELSE b
\* the uninterrupted run ends with step Nsteps - 1; its clock would read start + Nsteps dt at the next step, which a warm-started
\* run does execute (WarmFinalRecord): records are compared strictly before that time
AlignedStop(B) == B.astart + ((B.astop - B.astart) \div B.adt) * B.adt

Init == l = 1 /\ tid = 0 /\ status = "ok" /\ S = [none |-> 0] /\ A = [none |-> 0]
Setup == Is("setup") /\ Verdict /\ tid' = Ev.tid /\ status' = "ok" /\ S' = Ev /\ A' = [none |-> 0]
Eof == Is("eof") /\ Verdict /\ UNCHANGED <<tid, status, S, A>>
\* the reference run; a run that did not complete cannot be related to anything
RunA == /\ Is("runA") /\ Mark(Check("pair.reference_run_completed", Ev.ok)) /\ A' = Ev /\ UNCHANGED <<tid, S>>
Id(t) == t
Always(t) == TRUE
RunB ==
   /\ Is("runB")
   /\ LET B == Ev   k == Ev.kind   okAB == Ev.ok /\ A.ok IN
      Mark(All(<<
         Check("pair.run_completed", Ev.ok),
         \* C14: repeating a run reproduces the output exactly ; C18: three spellings, one output
         Check("same.records", (okAB /\ k = "same") => (Len(B.recs) = Len(A.recs) /\ Related(B, Id, Always, TRUE, {}))),
         Check("same.files", (okAB /\ k = "same") => B.idx = A.idx),
         Check("same.reference_time", (okAB /\ k = "same") => B.refs = A.refs),
         Check("same.particle_variables", (okAB /\ k = "same") => (Len(B.pvsrc) = Len(A.pvsrc) /\ PvEq(B, Len(A.pvsrc)))),
         \* C14: all times shifted by whole steps
         Check("shift.records", (okAB /\ k = "shift") => LET m(t) == t - B.shift IN (Len(B.recs) = Len(A.recs) /\ Related(B, m, Always, TRUE, {}))),
         \* C14: other release rows removed / reordered: trajectories unchanged up to renumbering
         Check("subset.records", (okAB /\ k = "subset") => (Len(B.recs) = Len(A.recs) /\
                  \A r \in 1..Len(B.recs) : /\ B.recs[r].time = A.recs[r].time
                                            /\ Covered(A.recs[r], B.recs[r], FALSE, {})
                                            /\ Covered(B.recs[r], A.recs[r], FALSE, { f \in 0..200 : \E d \in 1..Len(B.deleted) : B.deleted[d] = f }))),
         \* C10: reversed run = forward run in the mirrored, sign-flipped flow, record for record
         Check("mirror.records", (okAB /\ k = "mirror") => LET m(t) == B.axis - t IN (Len(B.recs) = Len(A.recs) /\ Related(B, m, Always, TRUE, {}))),
         Check("mirror.order", (okAB /\ k = "mirror") => \A r \in 1..Min(Len(A.recs), Len(B.recs)) : A.recs[r].time = B.axis - B.recs[r].time),
         \* C08: records written after the restart (before the stop time) equal the uninterrupted run's, files continue
         Check("restart.records", (okAB /\ k = "restart") => LET before(t) == t < AlignedStop(B) IN Related(B, Id, before, TRUE, {})),
         Check("restart.covers_rest_of_run", (okAB /\ k = "restart") => \A t \in Times(A) : (t > B.restart_time) => t \in Times(B)),
         Check("restart.nothing_before", (okAB /\ k = "restart") => \A t \in Times(B) : t > B.restart_time),
         Check("restart.file_numbering", (okAB /\ k = "restart") => \A f \in 1..Len(B.idx) : B.idx[f] = B.fromidx + f),
         Check("restart.particle_variables", (okAB /\ k = "restart" /\ Len(B.recs) > 0) => PvEq(B, Min(Len(A.pvsrc), Len(B.pvsrc))) /\ Len(B.pvsrc) >= Len(A.pvsrc))>>))
   /\ UNCHANGED <<tid, S, A>>
Next == Setup \/ Eof \/ RunA \/ RunB
Spec == Init /\ [][Next]_vars
Accepted == TLCGet("stats").diameter - 1 = Len(Tr)
=============================================================================
