CONSTANTS MAXN = 3
 ZMAX = 9
 CD = 8
 HS = {8, 16, 40}
 HCS = {0, 4, 8}
SPECIFICATION Spec
INVARIANT LookupLaw
INVARIANT SDepthLaw
CHECK_DEADLOCK FALSE
