------------------------------- MODULE Clock -------------------------------
(* The model clock (ladim/timekeeper.py, TimeKeeper).  Times are integer seconds on an arbitrary epoch.
   A clock is a record  c = [start, stop, dt, rev, ref].
   Everything else in the suite is written in *simulation time*  Sim(c, t) = +-(t - start), which is why
   a reversed run and the forward run over the mirrored time axis are one and the same spec scenario
   (property C10): direction only enters ClockTime, NcNum and the sign of the velocity.            *)
EXTENDS Integers

Abs(x) == IF x < 0 THEN 0 - x ELSE x

Sim(c, t)        == IF c.rev THEN c.start - t ELSE t - c.start
ClockTime(c, n)  == IF c.rev THEN c.start - n * c.dt ELSE c.start + n * c.dt      \* step -> time
Dur(c)           == Abs(c.stop - c.start)
Nsteps(c)        == Dur(c) \div c.dt                                                \* floor
TimeToStep(c, t) == Sim(c, t) \div c.dt                                             \* floor, also for t before start
DefaultRef(c)    == IF c.start < c.stop THEN c.start ELSE c.stop                    \* reference defaults to the earlier end
Ref(c)           == IF c.hasref THEN c.ref ELSE DefaultRef(c)
NcNum(c, n)      == ClockTime(c, n) - Ref(c)                 \* seconds since the reference time at step n
UnitSecs(u)      == CASE u = "s" -> 1 [] u = "m" -> 60 [] u = "h" -> 3600 [] u = "d" -> 86400 [] OTHER -> 0
UnitWord(u)      == CASE u = "s" -> "seconds" [] u = "m" -> "minutes" [] u = "h" -> "hours" [] u = "d" -> "days" [] OTHER -> "?"

\* a clock the model accepts (anything else must be refused at start-up, C20)
ValidClock(c) == /\ c.dt > 0
                 /\ c.rev = (c.stop < c.start)

\* ---- the running clock as the implementation keeps it: incrementally -----------------------------
ClockInit(c)     == [step |-> -1, time |-> ClockTime(c, -1)]
ClockTick(c, k)  == [step |-> k.step + 1, time |-> IF c.rev THEN k.time - c.dt ELSE k.time + c.dt]
=============================================================================
