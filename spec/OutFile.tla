------------------------------- MODULE OutFile -------------------------------
(* Output scheduling and file roll-over (ladim/out_netcdf.py: Output.__init__, update, write, close).
   Declarative: a cold run writes one record for every step k*ops < nsteps (k >= 0); a warm-started run for
   every step k*ops <= nsteps (k >= 1)  [WarmFinalRecord, DESIGN 4].  Files hold numrec records each
   (the last possibly fewer), numbered consecutively; numrec = 0 means one unnumbered file.
   Operational: the cursor arithmetic of the implementation with a *predicted* record count; a write into a
   file that was already closed is the crash "NetCDF: Not a valid ID".                               *)
EXTENDS Integers, Sequences

CeilDiv(a, b) == (a + b - 1) \div b
Min(a, b) == IF a < b THEN a ELSE b

\* ---- declarative
DueStep(step, ops, warm) == step >= (IF warm THEN 1 ELSE 0) /\ step % ops = 0
NumRecords(nsteps, ops, warm) == IF warm THEN nsteps \div ops ELSE CeilDiv(nsteps, ops)
RecStep(k, ops, warm) == IF warm THEN k * ops ELSE (k - 1) * ops                      \* model step of the k-th record (k >= 1)
NumFiles(nrec, numrec) == IF numrec = 0 THEN 1 ELSE IF nrec = 0 THEN 1 ELSE CeilDiv(nrec, numrec)
FileSize(f, nrec, numrec) == IF numrec = 0 THEN nrec ELSE Min(numrec, nrec - (f - 1) * numrec)     \* f >= 1

\* ---- operational: o = [num, per, rec, lrec, lnum, open, files, pv, crashed]
\*      files: sequence of sequences of record steps ; pv: sequence of booleans "particle variables written"
Per(numrec) == IF numrec = 0 THEN 999999 ELSE numrec
OInit(nsteps, ops, numrec, warm) ==
   LET num == NumRecords(nsteps, ops, warm) IN
   [num |-> num, per |-> Per(numrec), rec |-> 0, lrec |-> 0, lnum |-> Min(Per(numrec), num), open |-> TRUE,
    files |-> << <<>> >>, pv |-> <<FALSE>>, crashed |-> FALSE]
OWrite(o, step) ==
   IF ~o.open THEN [o EXCEPT !.crashed = TRUE]
   ELSE LET f  == Len(o.files)
            o1 == [o EXCEPT !.files[f] = Append(@, step), !.rec = @ + 1, !.lrec = @ + 1]
        IN IF o1.lrec = o1.lnum
           THEN LET o2 == [o1 EXCEPT !.pv[f] = TRUE, !.open = FALSE]                \* file finished: particle variables, close
                IN IF o2.rec < o2.num
                   THEN [o2 EXCEPT !.files = Append(@, <<>>), !.pv = Append(@, FALSE), !.open = TRUE, !.lrec = 0,
                                   !.lnum = Min(o2.per, o2.num - o2.rec)]
                   ELSE o2
           ELSE o1
OClose(o) == [o EXCEPT !.open = FALSE]
=============================================================================
