------------------------------- MODULE Config -------------------------------
(* One simulation, three spellings (ladim/configure.py).  A feature vector fv describes a simulation abstractly:
     [cont, freq, extracol, pvars, diffusion, subgrid, gridsec, wildcard, optsec, adv, ibm, xforce, v1files, hdr]
   ibm: a user IBM (module given by path, one option) with its own instance variable "age" written to the output;
   xforce: scalar forcing "temp" carried as a further instance variable (version 1 can only declare it through the IBM's variables);
   v1files: the version 1 document names the forcing / grid files in its `files` section instead of `gridforce`
   Render*(fv) are the three configuration documents as nested records (what the harness writes to disk);
   Mean*(doc) is the meaning configure() must give to a document (defaults, v1 translation); Canon(fv) the intended
   canonical configuration.  MC_Config checks  Mean(Render(fv)) = Canon(fv)  for every feature vector.       *)
EXTENDS Integers, Sequences, FiniteSets

IVarsOut(fv) == <<"X", "Y", "Z">> \o (IF fv.ibm THEN <<"age">> ELSE <<>>) \o <<"pid">> \o (IF fv.ibm /\ fv.xforce THEN <<"temp">> ELSE <<>>)   \* sorted
StateIVars(fv) == IF ~fv.ibm THEN <<>> ELSE IF fv.xforce THEN <<"age", "temp">> ELSE <<"age">>
XForcing(fv) == IF fv.ibm /\ fv.xforce THEN <<"temp">> ELSE <<>>
PVarsOf(fv) == IF ~fv.pvars THEN <<>> ELSE IF fv.extracol THEN <<"farmid", "release_time">> ELSE <<"release_time">>
Names(fv) == <<"mult", "release_time", "X", "Y", "Z">> \o (IF fv.extracol THEN <<"farmid">> ELSE <<>>)
StatePVars(fv) == IF fv.extracol THEN <<"farmid", "release_time">> ELSE <<"release_time">>
ForcingName(fv, First) == IF fv.wildcard THEN fv.wildname ELSE First        \* wildname: "f_*.nc", "f_??.nc", "f_[0-9][0-9].nc"
GridOnly == "grid_only.nc"                       \* an explicitly named grid file is a file of its own (with another grid spacing)

Canon(fv, First) == [ gridfile |-> IF fv.gridsec = "explicit" THEN GridOnly ELSE First,     \* explicit, or the (first) forcing file
               subgrid |-> fv.subgrid, forcing |-> ForcingName(fv, First), adv |-> fv.adv, diffusion |-> fv.diffusion,
               cont |-> fv.cont, freq |-> IF fv.cont THEN fv.freq ELSE 0, names |-> Names(fv),
               state_pvars |-> StatePVars(fv), out_ivars |-> IVarsOut(fv), out_pvars |-> PVarsOf(fv),
               state_ivars |-> StateIVars(fv), has_ibm |-> fv.ibm, ibm_inc |-> IF fv.ibm THEN 2 ELSE 0, extra_forcing |-> XForcing(fv) ]

\* ---- version 2 documents (YAML and TOML carry the same tree) -------------------------------------------------
RenderV2(fv, First) ==
   [ has_grid |-> fv.gridsec # "omitted",
     grid |-> [has_file |-> fv.gridsec = "explicit", file |-> GridOnly, subgrid |-> fv.subgrid /\ fv.gridsec # "omitted"],
     forcing |-> [file |-> ForcingName(fv, First), extra |-> XForcing(fv)],
     tracker |-> [adv |-> fv.adv, diffusion |-> fv.diffusion],
     \* the columns of the release file: named in the document, or read from the header line of the file (fv.hdr)
     release |-> [cont |-> fv.cont, freq |-> fv.freq, names |-> IF fv.hdr THEN <<>> ELSE Names(fv), header |-> IF fv.hdr THEN Names(fv) ELSE <<>>],
     state |-> [pvars |-> StatePVars(fv), ivars |-> StateIVars(fv)],
     optional |-> fv.optsec,                                                     \* ibm / warm_start sections: present-empty or omitted
     ibm |-> [has_module |-> fv.ibm, inc |-> IF fv.ibm THEN 2 ELSE 0],
     output |-> [ivars |-> IVarsOut(fv), pvars |-> PVarsOf(fv)] ]
MeanV2(d, First) ==          \* First = the first forcing file in name order (sorted glob)
   [ gridfile |-> IF d.has_grid /\ d.grid.has_file THEN d.grid.file ELSE First,
     subgrid |-> d.has_grid /\ d.grid.subgrid, forcing |-> d.forcing.file, adv |-> d.tracker.adv, diffusion |-> d.tracker.diffusion,
     cont |-> d.release.cont, freq |-> IF d.release.cont THEN d.release.freq ELSE 0,
     names |-> IF d.release.names = <<>> THEN d.release.header ELSE d.release.names,
     state_pvars |-> d.state.pvars, out_ivars |-> d.output.ivars, out_pvars |-> d.output.pvars,
     state_ivars |-> d.state.ivars, has_ibm |-> d.ibm.has_module, ibm_inc |-> d.ibm.inc, extra_forcing |-> d.forcing.extra ]

\* ---- version 1 document and its translation -------------------------------------------------------------------
RenderV1(fv, First) ==
   [ gridforce |-> [has_input |-> ~fv.v1files, input_file |-> ForcingName(fv, First), has_gridfile |-> fv.gridsec = "explicit" /\ ~fv.v1files, gridfile |-> GridOnly,
                    subgrid |-> fv.subgrid /\ fv.gridsec # "omitted", extra_forcing |-> XForcing(fv)],
     files |-> [has_input |-> fv.v1files, input_file |-> ForcingName(fv, First), has_gridfile |-> fv.gridsec = "explicit" /\ fv.v1files, gridfile |-> GridOnly],
     ibm |-> [present |-> fv.ibm \/ fv.optsec = "present", has_module |-> fv.ibm, variables |-> StateIVars(fv), inc |-> IF fv.ibm THEN 2 ELSE 0],
     numerics |-> [adv |-> fv.adv, diffusion |-> fv.diffusion],
     particle_release |-> [variables |-> Names(fv), continuous |-> fv.cont, freq |-> fv.freq, particle_variables |-> StatePVars(fv)],
     output_variables |-> [instance |-> IVarsOut(fv), particle |-> PVarsOf(fv)] ]
MeanV1(d, First) ==
   [ gridfile |-> IF d.gridforce.has_gridfile THEN d.gridforce.gridfile ELSE IF d.files.has_gridfile THEN d.files.gridfile ELSE First,
     subgrid |-> d.gridforce.subgrid, forcing |-> IF d.gridforce.has_input THEN d.gridforce.input_file ELSE d.files.input_file, adv |-> d.numerics.adv, diffusion |-> d.numerics.diffusion,
     cont |-> d.particle_release.continuous, freq |-> IF d.particle_release.continuous THEN d.particle_release.freq ELSE 0,
     names |-> d.particle_release.variables, state_pvars |-> d.particle_release.particle_variables,
     out_ivars |-> d.output_variables.instance, out_pvars |-> d.output_variables.particle,
     \* version 1 declares instance variables through the IBM's `variables` (float, default 0)
     state_ivars |-> IF d.ibm.present THEN d.ibm.variables ELSE <<>>, has_ibm |-> d.ibm.present /\ d.ibm.has_module,
     ibm_inc |-> IF d.ibm.present THEN d.ibm.inc ELSE 0, extra_forcing |-> d.gridforce.extra_forcing ]
=============================================================================
