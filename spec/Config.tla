------------------------------- MODULE Config -------------------------------
(* One simulation, three spellings (ladim/configure.py).  A feature vector fv describes a simulation abstractly:
     [cont, freq, extracol, pvars, diffusion, subgrid, gridsec, wildcard, optsec, adv]
   Render*(fv) are the three configuration documents as nested records (what the harness writes to disk);
   Mean*(doc) is the meaning configure() must give to a document (defaults, v1 translation); Canon(fv) the intended
   canonical configuration.  MC_Config checks  Mean(Render(fv)) = Canon(fv)  for every feature vector.       *)
EXTENDS Integers, Sequences, FiniteSets

IVarsOut == <<"X", "Y", "Z", "pid">>
PVarsOf(fv) == IF ~fv.pvars THEN <<>> ELSE IF fv.extracol THEN <<"farmid", "release_time">> ELSE <<"release_time">>
Names(fv) == <<"mult", "release_time", "X", "Y", "Z">> \o (IF fv.extracol THEN <<"farmid">> ELSE <<>>)
StatePVars(fv) == IF fv.extracol THEN <<"farmid", "release_time">> ELSE <<"release_time">>
ForcingName(fv, First) == IF fv.wildcard THEN "f_*.nc" ELSE First

Canon(fv, First) == [ gridfile |-> First,                               \* explicit, or the (first) forcing file
               subgrid |-> fv.subgrid, forcing |-> ForcingName(fv, First), adv |-> fv.adv, diffusion |-> fv.diffusion,
               cont |-> fv.cont, freq |-> IF fv.cont THEN fv.freq ELSE 0, names |-> Names(fv),
               state_pvars |-> StatePVars(fv), out_ivars |-> IVarsOut, out_pvars |-> PVarsOf(fv) ]

\* ---- version 2 documents (YAML and TOML carry the same tree) -------------------------------------------------
RenderV2(fv, First) ==
   [ has_grid |-> fv.gridsec # "omitted",
     grid |-> [has_file |-> fv.gridsec = "explicit", file |-> First, subgrid |-> fv.subgrid /\ fv.gridsec # "omitted"],
     forcing |-> [file |-> ForcingName(fv, First)],
     tracker |-> [adv |-> fv.adv, diffusion |-> fv.diffusion],
     release |-> [cont |-> fv.cont, freq |-> fv.freq, names |-> Names(fv)],
     state |-> [pvars |-> StatePVars(fv)],
     optional |-> fv.optsec,                                                     \* ibm / warm_start sections: present-empty or omitted
     output |-> [ivars |-> IVarsOut, pvars |-> PVarsOf(fv)] ]
MeanV2(d, First) ==          \* First = the first forcing file in name order (sorted glob)
   [ gridfile |-> IF d.has_grid /\ d.grid.has_file THEN d.grid.file ELSE First,
     subgrid |-> d.has_grid /\ d.grid.subgrid, forcing |-> d.forcing.file, adv |-> d.tracker.adv, diffusion |-> d.tracker.diffusion,
     cont |-> d.release.cont, freq |-> IF d.release.cont THEN d.release.freq ELSE 0, names |-> d.release.names,
     state_pvars |-> d.state.pvars, out_ivars |-> d.output.ivars, out_pvars |-> d.output.pvars ]

\* ---- version 1 document and its translation -------------------------------------------------------------------
RenderV1(fv, First) ==
   [ gridforce |-> [input_file |-> ForcingName(fv, First), has_gridfile |-> fv.gridsec = "explicit", gridfile |-> First, subgrid |-> fv.subgrid /\ fv.gridsec # "omitted"],
     numerics |-> [adv |-> fv.adv, diffusion |-> fv.diffusion],
     particle_release |-> [variables |-> Names(fv), continuous |-> fv.cont, freq |-> fv.freq, particle_variables |-> StatePVars(fv)],
     has_ibm |-> fv.optsec = "present",
     output_variables |-> [instance |-> IVarsOut, particle |-> PVarsOf(fv)] ]
MeanV1(d, First) ==
   [ gridfile |-> IF d.gridforce.has_gridfile THEN d.gridforce.gridfile ELSE First,
     subgrid |-> d.gridforce.subgrid, forcing |-> d.gridforce.input_file, adv |-> d.numerics.adv, diffusion |-> d.numerics.diffusion,
     cont |-> d.particle_release.continuous, freq |-> IF d.particle_release.continuous THEN d.particle_release.freq ELSE 0,
     names |-> d.particle_release.variables, state_pvars |-> d.particle_release.particle_variables,
     out_ivars |-> d.output_variables.instance, out_pvars |-> d.output_variables.particle ]
=============================================================================
