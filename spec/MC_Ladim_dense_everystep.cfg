CONSTANTS MAXKILL = 1
 MAXPID = 3
 W = 5
 NSTEPS = 5
 CacheMode = "state"
 Layout = "dense"
 CompactMode = "everystep"
 NpidMode = "count"
SPECIFICATION Spec
INVARIANT PidsIncreasing
INVARIANT PidsBelowNpid
INVARIANT Independent
INVARIANT CacheAligned
INVARIANT RecordsFaithful
INVARIANT RestartEq
INVARIANT DenseAddressing
PROPERTY RecordIsForcedState
PROPERTY ProtocolOrder
PROPERTY DeadStayDead
PROPERTY NeverReused
CHECK_DEADLOCK FALSE
