CONSTANTS QP = 256
 QZ = 16
SPECIFICATION Spec
POSTCONDITION Accepted
CHECK_DEADLOCK FALSE
