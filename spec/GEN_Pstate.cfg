CONSTANTS MAXP = 4
 DEPTH = 5
 GEN = TRUE
SPECIFICATION Spec
INVARIANT Emit
CHECK_DEADLOCK FALSE
