CONSTANTS QP = 256
 QZ = 16
 NP = 2
 NS = 2
 S16 = 128
 SZ16 = 16
 DX = 128
 Shared = TRUE
SPECIFICATION Spec
INVARIANT Unbiased
INVARIANT Variance
INVARIANT IndepXY
INVARIANT IndepPart
CHECK_DEADLOCK FALSE
