----------------------------- MODULE MC_OutFile -----------------------------
(* Exhaustive check (C07, C06, C08) of the output cursor arithmetic for every run length, period, split and
   cold / warm start in the bound: the run never writes into a closed file, writes exactly the scheduled records,
   files have numrec records (the last fewer), every file receives its particle variables and is closed.   *)
EXTENDS OutFile, TLC
CONSTANTS MAXSTEPS, MAXOPS, MAXNUMREC
VARIABLES nsteps, ops, numrec, warm, step, o, done
vars == <<nsteps, ops, numrec, warm, step, o, done>>
Init == /\ nsteps \in 1..MAXSTEPS /\ ops \in 1..MAXOPS /\ numrec \in 0..MAXNUMREC /\ warm \in BOOLEAN
        /\ step = (IF warm THEN 0 ELSE -1) /\ o = OInit(nsteps, ops, numrec, warm) /\ done = FALSE
Last == IF warm THEN nsteps ELSE nsteps - 1
Step == /\ ~done /\ step < Last
        /\ step' = step + 1
        /\ o' = IF DueStep(step + 1, ops, warm) THEN OWrite(o, step + 1) ELSE o
        /\ UNCHANGED <<nsteps, ops, numrec, warm, done>>
Finish == /\ ~done /\ step = Last /\ done' = TRUE /\ o' = OClose(o) /\ UNCHANGED <<nsteps, ops, numrec, warm, step>>
Next == Step \/ Finish
Spec == Init /\ [][Next]_vars

RECURSIVE Flat(_)
Flat(fs) == IF fs = <<>> THEN <<>> ELSE Head(fs) \o Flat(Tail(fs))
NeverCrashes == ~o.crashed
NR == NumRecords(nsteps, ops, warm)
AtEnd == done =>
   /\ Flat(o.files) = [k \in 1..NR |-> RecStep(k, ops, warm)]                         \* exactly the scheduled records, in order
   /\ Len(o.files) = NumFiles(NR, numrec)
   /\ \A f \in 1..Len(o.files) : Len(o.files[f]) = FileSize(f, NR, numrec)
   /\ \A f \in 1..Len(o.files) : (Len(o.files[f]) > 0) => o.pv[f]                     \* particle variables written
   /\ ~o.open
ColdWindow == (done /\ ~warm) => \A k \in 1..NR : RecStep(k, ops, warm) >= 0 /\ RecStep(k, ops, warm) < nsteps    \* [start, stop)
=============================================================================
