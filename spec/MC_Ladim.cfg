CONSTANTS MAXKILL = 2
 MAXPID = 5
 W = 5
 NSTEPS = 6
 CacheMode = "state"
 Layout = "sparse"
 CompactMode = "output"
 NpidMode = "count"
SPECIFICATION Spec
INVARIANT PidsIncreasing
INVARIANT PidsBelowNpid
INVARIANT Independent
INVARIANT CacheAligned
INVARIANT RecordsFaithful
INVARIANT RestartEq
PROPERTY RecordIsForcedState
PROPERTY ProtocolOrder
PROPERTY DeadStayDead
PROPERTY NeverReused
CHECK_DEADLOCK FALSE
