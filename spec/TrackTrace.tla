---------------------------- MODULE TrackTrace ----------------------------
(* Exact lattice conformance of the real Tracker (with a scripted forcing and a scripted random generator) against
   Tracker.tla: random-walk algebra and draw consumption (C11), vertical walk with reflection (C15), move outcome (C09).
   Units: positions 1/256 cell, depths 1/16 m, velocities un/vn in 1/128 m/s, draws xi in quarters.
   s16 / sz16 = sqrt(2 D dt) / sqrt(2 Dz dt) in 1/16 m.                                               *)
EXTENDS Tracker, TLC, Json, IOUtils
Tr == ndJsonDeserialize(IOEnv.TRACE_FILE)
VARIABLES l, tid, status, S
vars == <<l, tid, status, S>>
Ev == Tr[l]
Is(e) == l <= Len(Tr) /\ Tr[l].ev = e /\ l' = l + 1
Check(name, c) == c \/ (PrintT(<<"REJECT", tid, l, name>>) /\ FALSE)
All(t) == \A i \in DOMAIN t : t[i]
\* complete: the run crashed or every scripted step was taken (the steps are numbered)
Complete == \/ Tr[l - 1].ev = "crash"
            \/ (Tr[l - 1].ev = "tstep" /\ Tr[l - 1].k = S.nst)
            \/ (Tr[l - 1].ev = "setup" /\ S.nst = 0)
Verdict == IF tid = 0 THEN TRUE
           ELSE IF ~Complete THEN PrintT(<<"REJECT", tid, l, "trace.incomplete">>)
           ELSE IF status = "ok" THEN PrintT(<<"ACCEPT", tid>>) ELSE TRUE
Mark(ok) == status' = IF ok THEN status ELSE "rej"
Abs(x) == IF x < 0 THEN 0 - x ELSE x
Init == l = 1 /\ tid = 0 /\ status = "ok" /\ S = [none |-> 0]
Setup == Is("setup") /\ Verdict /\ tid' = Ev.tid /\ status' = "ok" /\ S' = Ev
Eof == Is("eof") /\ Verdict /\ UNCHANGED <<tid, status, S>>

G == S.grid
P(s, i) == [x |-> s.x[i], y |-> s.y[i], z |-> s.z[i], alive |-> s.alive[i], active |-> s.active[i]]
\* displacement of particle i in 1/256 cell: advection + random walk  sigma xi dt / dx  with sigma dt = sqrt(2 D dt)
DispX(e, i, xi) == (e.un[i] * 2 * S.dt) \div S.dx + WalkH(S.s16, xi, S.dx)
DispY(e, i, xi) == (e.vn[i] * 2 * S.dt) \div S.dy + WalkH(S.s16, xi, S.dy)
DispZ(e, i, xi) == (IF S.vadv THEN e.wn[i] ELSE 0) + WalkV(S.sz16, xi)
ExactDiv(e, n) == /\ \A i \in 1..n : (e.un[i] * 2 * S.dt) % S.dx = 0 /\ (e.vn[i] * 2 * S.dt) % S.dy = 0
                  /\ \A k \in 1..Len(e.draws) : (S.s16 * e.draws[k] * 4) % S.dx = 0 /\ (S.s16 * e.draws[k] * 4) % S.dy = 0
                                                /\ (S.sz16 * e.draws[k]) % 4 = 0
VertOn == S.sz16 > 0 \/ S.vadv
TStep ==
   /\ Is("tstep")
   /\ LET e == Ev   n == Len(e.pre.x)
          nh == IF S.s16 > 0 THEN 2 * n ELSE 0                 \* draws for the horizontal walk
          nv == IF S.sz16 > 0 THEN n ELSE 0
          shape == Len(e.post.x) = n /\ Len(e.post.z) = n /\ Len(e.un) = n /\ (S.vadv => Len(e.wn) = n)
          enough == Len(e.draws) >= nh + nv
          \* xi of particle i for U and V under the two accepted assignments of the i.i.d. blocks
          xu(a, i) == IF S.s16 = 0 THEN 0 ELSE DrawU(e.draws, n, a, i)
          xv(a, i) == IF S.s16 = 0 THEN 0 ELSE DrawV(e.draws, n, a, i)
          xw(i) == IF S.sz16 = 0 THEN 0 ELSE DrawW(e.draws, nh, i)
          want(a, i) == MoveH(G, P(e.pre, i), DispX(e, i, xu(a, i)), DispY(e, i, xv(a, i)))
          \* a particle that is already dead is not observable any more: it only has to stay dead (where it is kept is free)
          hfit(a) == \A i \in 1..n : IF ~e.pre.alive[i] THEN ~e.post.alive[i] ELSE LET w == want(a, i) IN
                        e.post.x[i] = w.x /\ e.post.y[i] = w.y /\ e.post.alive[i] = w.alive /\ e.post.active[i] = w.active
          hcell(i) == Depth(G, Round(e.pre.x[i]), Round(e.pre.y[i]))          \* the cell occupied when the step began
          dz(i) == DispZ(e, i, xw(i))
      IN /\ Mark(All(<<Check("setup.valid", shape /\ ExactDiv(e, n)),
                    Check("track.every_step", e.k = (IF Tr[l - 1].ev = "tstep" THEN Tr[l - 1].k + 1 ELSE 1)),
                    Check("lattice", ~e.off),
                    Check("diff.draw_count", (S.s16 > 0 \/ S.sz16 > 0) => Len(e.draws) = nh + nv),
                    Check("diff.deterministic_when_off", (S.s16 = 0 /\ S.sz16 = 0) => Len(e.draws) = 0),
                    Check("diff.standard_normal", \A k \in 1..Len(e.calls) : e.calls[k].std),
                    Check("diff.horizontal", (shape /\ enough) => (hfit(1) \/ hfit(2))),
                    Check("vert.reflect", (shape /\ enough /\ VertOn) => \A i \in 1..n : e.pre.alive[i] => e.post.z[i] = Reflect(e.pre.z[i], dz(i), hcell(i))),
                    Check("vert.in_column", (shape /\ enough /\ VertOn) => \A i \in 1..n :
                             (e.pre.alive[i] /\ Abs(dz(i)) < hcell(i) /\ e.pre.z[i] >= 0 /\ e.pre.z[i] <= hcell(i)) => (e.post.z[i] >= 0 /\ e.post.z[i] <= hcell(i))),
                    Check("vert.unchanged_when_off", (shape /\ ~VertOn) => \A i \in 1..n : e.pre.alive[i] => e.post.z[i] = e.pre.z[i]),
                    Check("track.alive_in_water", shape => \A i \in 1..n : Safe(G, P(e.post, i)))>>))
      \* vacuity control of the outcome clauses: how many particles left the grid / were held back at the coast in this step
         /\ IF shape /\ enough
            THEN PrintT(<<"COUNT", "tkilled", Cardinality({ i \in 1..n : e.pre.alive[i] /\ ~e.post.alive[i] })>>) /\
                 PrintT(<<"COUNT", "tcancelled", Cardinality({ i \in 1..n : e.pre.alive[i] /\ e.pre.active[i] /\ e.post.alive[i]
                                                  /\ e.post.x[i] = e.pre.x[i] /\ e.post.y[i] = e.pre.y[i]
                                                  /\ (DispX(e, i, xu(1, i)) # 0 \/ DispY(e, i, xv(1, i)) # 0) })>>)
            ELSE TRUE
   /\ UNCHANGED <<tid, S>>
Crash == Is("crash") /\ Mark(Check("run.crashed", FALSE)) /\ UNCHANGED <<tid, S>>
Next == Setup \/ Eof \/ TStep \/ Crash
Spec == Init /\ [][Next]_vars
Accepted == TLCGet("stats").diameter - 1 = Len(Tr)
=============================================================================
