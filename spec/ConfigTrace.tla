---------------------------- MODULE ConfigTrace ----------------------------
(* Trace validation of configure() (C18): the canonical projection of the dictionary returned for each of the three
   documents must equal Canon(fv) computed by the specification.                                         *)
EXTENDS Config, TLC, Json, IOUtils
Tr == ndJsonDeserialize(IOEnv.TRACE_FILE)
VARIABLES l, tid, status, S
vars == <<l, tid, status, S>>
Ev == Tr[l]
Is(e) == l <= Len(Tr) /\ Tr[l].ev = e /\ l' = l + 1
Check(name, c) == c \/ (PrintT(<<"REJECT", tid, l, name>>) /\ FALSE)
All(t) == \A i \in DOMAIN t : t[i]
Verdict == IF tid > 0 /\ status = "ok" THEN PrintT(<<"ACCEPT", tid>>) ELSE TRUE
Mark(ok) == status' = IF ok THEN status ELSE "rej"
Init == l = 1 /\ tid = 0 /\ status = "ok" /\ S = [none |-> 0]
Setup == Is("setup") /\ Verdict /\ tid' = Ev.tid /\ status' = "ok" /\ S' = Ev
Eof == Is("eof") /\ Verdict /\ UNCHANGED <<tid, status, S>>
Conf == /\ Is("config")
        /\ LET want == Canon(S.fv, S.first)   got == Ev.proj IN
           Mark(All(<<Check("config.read", Ev.ok),
                      Check("config.times", Ev.ok => (got.start = S.start /\ got.stop = S.stop /\ got.dt = S.dt /\ got.ref = S.ref)),
                      Check("config.grid", Ev.ok => (got.gridfile = want.gridfile /\ got.subgrid = want.subgrid)),
                      Check("config.forcing", Ev.ok => got.forcing = want.forcing),
                      Check("config.grid_module_is_forcing_module", Ev.ok => got.gridmod = got.forcemod),
                      Check("config.tracker", Ev.ok => (got.adv = want.adv /\ got.diffusion = want.diffusion)),
                      Check("config.release", Ev.ok => (got.cont = want.cont /\ got.freq = want.freq /\ (IF got.names = <<>> THEN got.header ELSE got.names) = want.names)),
                      Check("config.state", Ev.ok => (got.state_pvars = want.state_pvars /\ got.state_ivars = want.state_ivars)),
                      Check("config.ibm", Ev.ok => (got.has_ibm = want.has_ibm /\ got.ibm_inc = want.ibm_inc)),
                      Check("config.extra_forcing", Ev.ok => got.extra_forcing = want.extra_forcing),
                      Check("config.output", Ev.ok => (got.out_ivars = want.out_ivars /\ got.out_pvars = want.out_pvars /\ got.outper = S.outper))>>))
        /\ UNCHANGED <<tid, S>>
Next == Setup \/ Eof \/ Conf
Spec == Init /\ [][Next]_vars
Accepted == TLCGet("stats").diameter - 1 = Len(Tr)
=============================================================================
