----------------------------- MODULE MC_Ladim -----------------------------
(* Exhaustive check of the composed model over all small scenarios: release schedules (<= 3 groups), scripted kills
   (<= 2, any step, any particle), output periods, and - for C08 - a warm start from every record.
   C19  the six module calls happen once per step in protocol order (pc), the record is the state the forcing saw
   C06  a record holds exactly the living particles with the state's values
   C14  every living particle is where its own release data put it, whatever happened to the others (Independent);
        the cached per-particle forcing is aligned with the particle list when it is consumed (CacheAligned)
   C05  identifiers dense, increasing, never reused
   C08  the restarted run's state equals the uninterrupted run's state at every later step (RestartEq)        *)
EXTENDS Ladim, TLC, Json
CONSTANTS MAXKILL, MAXPID
VARIABLES sc, m, phase, snap, r
vars == <<sc, m, phase, snap, r>>

Levels == {0, 1}
Groups == { <<>> } \cup { <<a>> : a \in Levels } \cup { <<a, b>> : a \in Levels, b \in Levels }
Init == /\ \E g0 \in Groups \ {<<>>}, g1 \in Groups, g3 \in Groups, o \in 1..3 :
              sc = [rel |-> (0 :> g0) @@ (1 :> g1) @@ (3 :> g3), kill |-> {}, ops |-> o]
        /\ m = Init0 /\ phase = "plan" /\ snap = <<>> /\ r = [on |-> FALSE]
\* choose up to two kills, then run
AddKill == /\ phase = "plan" /\ Cardinality(sc.kill) < MAXKILL
           /\ \E s \in 0..(NSTEPS - 2), p \in 0..MAXPID : <<s, p>> \notin sc.kill /\ sc' = [sc EXCEPT !.kill = @ \cup {<<s, p>>}]
           /\ UNCHANGED <<m, phase, snap, r>>
Go == phase = "plan" /\ phase' = "run" /\ UNCHANGED <<sc, m, snap, r>>
\* the uninterrupted run, one module call per transition (so that every intermediate state is checked)
Call == /\ phase = "run" /\ (m.step < NSTEPS - 1 \/ m.pc # "timer")
        /\ m' = CASE m.pc = "timer" -> Timer(m)
                  [] m.pc = "release" -> Release(m, sc, FALSE)
                  [] m.pc = "force" -> Force(m, "output")
                  [] m.pc = "output" -> Output(m, sc, FALSE)
                  [] m.pc = "move" -> Move(m)
                  [] m.pc = "ibm" -> Ibm(m, sc)
        /\ snap' = IF m.pc = "ibm" THEN Append(snap, [step |-> m.step, parts |-> Alive(m'.parts), npid |-> m'.npid]) ELSE snap
        /\ UNCHANGED <<sc, phase, r>>
\* after the run: warm start from any record, then whole steps
Restart == /\ phase = "run" /\ m.pc = "timer" /\ m.step = NSTEPS - 1 /\ ~r.on
           /\ \E k \in 1..Len(m.hist) : m.hist[k].step < NSTEPS - 1 /\ r' = [on |-> TRUE, m |-> Restore(m.hist[k], sc)]
           /\ phase' = "restarted" /\ UNCHANGED <<sc, m, snap>>
Continue == /\ phase = "restarted" /\ r.m.step < NSTEPS - 1
            /\ r' = [r EXCEPT !.m = StepAll(r.m, sc, TRUE)]
            /\ UNCHANGED <<sc, m, phase, snap>>
Next == AddKill \/ Go \/ Call \/ Restart \/ Continue
Spec == Init /\ [][Next]_vars

\* liveness (checked without any state constraint, under weak fairness of the next-state relation): every run ends after its last
\* step, and by then exactly the scheduled records have been written (C07: one record for each output time in [start, stop))
FairSpec == Spec /\ WF_vars(Next)
RunEnded == phase # "plan" /\ m.step = NSTEPS - 1 /\ m.pc = "timer"
Terminates == <>RunEnded
AllRecordsWritten == [](RunEnded => Len(m.hist) = (NSTEPS + sc.ops - 1) \div sc.ops)
\* scenario emission for replay into the real model (GEN configuration): release groups, kills, output period
SetToSeq(S) == LET RECURSIVE F(_)
                   F(T) == IF T = {} THEN <<>> ELSE LET x == CHOOSE x \in T : TRUE IN <<x>> \o F(T \ {x})
               IN F(S)
EmitScenario == (phase = "run" /\ m.pc = "timer" /\ m.step = NSTEPS - 1) =>
                   PrintT(<<"SCN", ToJson([rel0 |-> sc.rel[0], rel1 |-> sc.rel[1], rel3 |-> sc.rel[3], kill |-> SetToSeq(sc.kill), ops |-> sc.ops,
                                           records |-> [k \in 1..Len(m.hist) |-> [step |-> m.hist[k].step, pids |-> [i \in 1..Len(m.hist[k].parts) |-> m.hist[k].parts[i].pid]]]])>>)
\* ---------------------------------------------------------------------------------------------- properties
P == m.parts
PidsIncreasing == \A i \in 1..(Len(P) - 1) : P[i].pid < P[i + 1].pid
PidsBelowNpid == \A i \in 1..Len(P) : P[i].pid < m.npid
\* C14: a living particle's position and age follow from its own release data and the kill script alone
Independent == \A i \in 1..Len(P) : P[i].alive =>
                  LET done == IF m.pc \in {"ibm", "timer"} THEN m.step + 1 ELSE m.step IN   \* moves performed so far
                  P[i].x = SoloPos(P[i].born, P[i].level, IF m.pc = "timer" /\ m.step = -1 THEN 0 ELSE done)
\* C14: when the tracker consumes the cache, entry i belongs to particle i
CacheAligned == m.pc = "move" => (Len(m.cache) = Len(P) /\ \A i \in 1..Len(P) : m.cache[i].pid = P[i].pid)
\* C19 / C06: a record is the living state the forcing was evaluated on, at a due step, once
RecordsFaithful == \A k \in 1..Len(m.hist) :
                      /\ m.hist[k].step % sc.ops = 0 /\ (k > 1 => m.hist[k].step = m.hist[k - 1].step + sc.ops)
                      /\ \A i \in 1..Len(m.hist[k].parts) : m.hist[k].parts[i].alive
RecordIsForcedState == [][(m.pc = "output" /\ Len(m'.hist) > Len(m.hist)) =>
                            m'.hist[Len(m'.hist)].parts = Alive(m.parts) /\ Pids(Alive(m.parts)) \subseteq { m.cache[i].pid : i \in 1..Len(m.cache) }]_vars
ProtocolOrder == [][m' # m => \/ (m.pc = "timer" /\ m'.pc = "release" /\ m'.step = m.step + 1)
                               \/ (m.pc = "release" /\ m'.pc = "force") \/ (m.pc = "force" /\ m'.pc = "output")
                               \/ (m.pc = "output" /\ m'.pc = "move") \/ (m.pc = "move" /\ m'.pc = "ibm") \/ (m.pc = "ibm" /\ m'.pc = "timer")]_vars
DeadStayDead == [][\A i \in 1..Len(m.parts) : ~m.parts[i].alive => \A j \in 1..Len(m'.parts) : m'.parts[j].pid = m.parts[i].pid => ~m'.parts[j].alive]_vars
NeverReused == [][m'.npid >= m.npid /\ \A j \in 1..Len(m'.parts) : m'.parts[j].pid \in Pids(m.parts) \/ m'.parts[j].pid >= m.npid]_vars
\* C06, dense layout: the column a value is written to is the particle's identifier
ColsArePids(h) == \A k \in 1..Len(h) : Len(h[k].cols) = Len(h[k].parts) /\ \A j \in 1..Len(h[k].cols) : h[k].cols[j] = h[k].parts[j].pid + 1
DenseAddressing == Layout \in {"dense", "dense_bypos"} => ColsArePids(m.hist) /\ (phase = "restarted" => ColsArePids(r.m.hist))
\* C08: after the catch-up step and after every further step the restarted run is in the state the uninterrupted run was in
SnapAt(s) == snap[CHOOSE k \in 1..Len(snap) : snap[k].step = s]
RestartEq == (phase = "restarted") =>
                /\ Alive(r.m.parts) = SnapAt(r.m.step).parts /\ r.m.npid = SnapAt(r.m.step).npid
                /\ \A k \in 1..Len(r.m.hist) : \E j \in 1..Len(m.hist) : m.hist[j].step = r.m.hist[k].step /\ m.hist[j].parts = r.m.hist[k].parts
=============================================================================
