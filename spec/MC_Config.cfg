SPECIFICATION Spec
INVARIANT SameMeaning
CHECK_DEADLOCK FALSE
