----------------------------- MODULE MC_Interp -----------------------------
(* Exhaustive check of the C-grid sampling geometry (C02, C17) for every legal sub-rectangle of a small global
   grid, every mask on a window, every quarter-cell position of the region positions can be in (valid region and
   the region Runge-Kutta stage positions are clipped to), both velocity components:
     - the operational local indices (as the code computes them) denote the declarative global corners,
     - all four corners and both levels lie inside the loaded arrays (nothing is read out of range),
     - the local face masks equal "zero velocity through land faces" of the global mask,
     - weights are non-negative, sum to one, and reproduce every field that is linear in x and y.      *)
EXTENDS Interp, Vertical, TLC
CONSTANTS IMAX, JMAX, Q, WI, WJ
VARIABLES g, probe
vars == <<g, probe>>

Bit(n, b) == (n \div (2 ^ b)) % 2
\* mask: all sea except a 2 x 2 window at (WJ.., WI..) coded by m in 0..15
MaskOf(m) == [j \in 1..JMAX |-> [i \in 1..IMAX |->
                 IF j - 1 \in {WJ, WJ + 1} /\ i - 1 \in {WI, WI + 1} THEN Bit(m, 2 * (j - 1 - WJ) + (i - 1 - WI)) ELSE 1]]
Subgrids == { s \in (1..IMAX) \X (1..IMAX) \X (1..JMAX) \X (1..JMAX) :
                 s[1] < s[2] /\ s[2] <= IMAX - 1 /\ s[3] < s[4] /\ s[4] <= JMAX - 1 /\ s[2] - s[1] >= 3 /\ s[4] - s[3] >= 3 }
Init == /\ \E s \in Subgrids, m \in 0..15 : g = [i0 |-> s[1], i1 |-> s[2], j0 |-> s[3], j1 |-> s[4], M |-> MaskOf(m)]
        /\ probe = [x |-> 0, y |-> 0, c |-> 0, on |-> FALSE]
Probe == /\ ~probe.on
         /\ \E x \in (g.i0 * Q)..((g.i1 - 1) * Q), y \in (g.j0 * Q)..((g.j1 - 1) * Q), c \in {0, 1} :
               /\ InClipped(g, x, y, Q)
               /\ probe' = [x |-> x, y |-> y, c |-> c, on |-> TRUE]
         /\ UNCHANGED g
Spec == Init /\ [][Probe]_vars

LC == LocalCorners(g, probe.x, probe.y, Q, probe.c)
GC == Corners(probe.x, probe.y, Q, probe.c)
LocalIsGlobal == probe.on => \A r \in 1..4 : ToGlobal(g, probe.c, LC[r]) = GC[r]
InBounds      == probe.on => \A r \in 1..4 : InsideLocal(g, probe.c, LC[r])                         \* C17
OwnCellLoaded == probe.on => /\ \A ci \in OwnCells(probe.x, Q) : ci >= g.i0 /\ ci < g.i1
                             /\ \A cj \in OwnCells(probe.y, Q) : cj >= g.j0 /\ cj < g.j1
MaskIsLandFaces == probe.on => \A r \in 1..4 : LocalFaceOpen(g, probe.c, LC[r]) = FaceOpen(g, probe.c, GC[r].j, GC[r].i)
Convex == probe.on => /\ \A r \in 1..4 : GC[r].w >= 0
                      /\ GC[1].w + GC[2].w + GC[3].w + GC[4].w = Q * Q
\* node position in 1/Q cells: u-points at x = i + 1/2, v-points at y = j + 1/2
NX(r) == r.i * Q + (IF probe.c = 0 THEN Q \div 2 ELSE 0)
NY(r) == r.j * Q + (IF probe.c = 1 THEN Q \div 2 ELSE 0)
LinearExact == probe.on => /\ GC[1].w * NX(GC[1]) + GC[2].w * NX(GC[2]) + GC[3].w * NX(GC[3]) + GC[4].w * NX(GC[4]) = Q * Q * probe.x
                           /\ GC[1].w * NY(GC[1]) + GC[2].w * NY(GC[2]) + GC[3].w * NY(GC[3]) + GC[4].w * NY(GC[4]) = Q * Q * probe.y
\* the valid region lies inside the clipped region (what the tracker may pass to the kernels)
ValidInsideClipped == \A x \in (g.i0 * Q)..((g.i1 - 1) * Q), y \in (g.j0 * Q)..((g.j1 - 1) * Q) : InValid(g, x, y, Q) => InClipped(g, x, y, Q)
=============================================================================
