CONSTANTS SwitchRule = "byfile"
 LO = 2
 HI = 6
 MAXFR = 4
 MAXFILES = 3
SPECIFICATION Spec
INVARIANT EmitLayout
CONSTRAINT OnlyStarts
CHECK_DEADLOCK FALSE
