------------------------------ MODULE FileName ------------------------------
(* Names of the output files (ladim/out_netcdf.py: filename_generator, Output.__init__).
   A file name is a sequence of one-character strings; `p` is the stem of the configured name (without ".nc").
   Documented: cake.nc -> cake_000.nc, cake_001.nc, ... ; cake_04.nc -> cake_04.nc, cake_05.nc, ...
   i.e. a stem ending in "_" + digits carries its own start number and width, otherwise numbering starts at 000;
   without splitting (numrec = 0) the configured name is used as it is.                                        *)
EXTENDS Integers, Sequences, FiniteSets

DigitChars == <<"0", "1", "2", "3", "4", "5", "6", "7", "8", "9">>
IsDig(c) == \E d \in 1..10 : DigitChars[d] = c
DigVal(c) == (CHOOSE d \in 1..10 : DigitChars[d] = c) - 1
MaxOf(S) == CHOOSE x \in S : \A y \in S : y <= x

\* length of the run of digits at the end of p
TrailW(p) == MaxOf({ w \in 0..Len(p) : \A i \in (Len(p) - w + 1)..Len(p) : IsDig(p[i]) })
HasCounter(p) == TrailW(p) >= 1 /\ Len(p) > TrailW(p) /\ p[Len(p) - TrailW(p)] = "_"
RECURSIVE NumVal(_)
NumVal(d) == IF d = <<>> THEN 0 ELSE 10 * NumVal(SubSeq(d, 1, Len(d) - 1)) + DigVal(d[Len(d)])
StartNo(p) == IF HasCounter(p) THEN NumVal(SubSeq(p, Len(p) - TrailW(p) + 1, Len(p))) ELSE 0
Width(p) == IF HasCounter(p) THEN TrailW(p) ELSE 3
Base(p) == IF HasCounter(p) THEN SubSeq(p, 1, Len(p) - TrailW(p) - 1) ELSE p
RECURSIVE NumDigits(_)
NumDigits(n) == IF n < 10 THEN <<DigitChars[n + 1]>> ELSE Append(NumDigits(n \div 10), DigitChars[(n % 10) + 1])
\* zero padded to at least w characters (a number that outgrows the width keeps all its digits)
Padded(n, w) == LET d == NumDigits(n) IN [i \in 1..(w - Len(d)) |-> "0"] \o d
Ext == <<".", "n", "c">>
Stem(p, k) == Base(p) \o <<"_">> \o Padded(StartNo(p) + k, Width(p))          \* stem of the k-th file, k = 0, 1, ...
SplitName(p, k) == Stem(p, k) \o Ext
PlainName(p) == p \o Ext
\* number that a reader finds at the end of a file's stem (-1: none)
NumberOf(s) == IF HasCounter(s) THEN StartNo(s) ELSE -1
=============================================================================
