---------------------------- MODULE ClockTrace ----------------------------
(* Trace validation of the real TimeKeeper and normalize_period against Clock.tla / Period.tla (C13, C10).
   One trace = setup + events logged by harness/checks/c13.py from the real objects.            *)
EXTENDS Clock, Period, TLC, Json, IOUtils, Sequences
Tr == ndJsonDeserialize(IOEnv.TRACE_FILE)
VARIABLES l, tid, status, S, k
vars == <<l, tid, status, S, k>>

Ev == Tr[l]
Is(e) == l <= Len(Tr) /\ Tr[l].ev = e /\ l' = l + 1
Check(name, c) == c \/ (PrintT(<<"REJECT", tid, l, name>>) /\ FALSE)
All(t) == \A i \in DOMAIN t : t[i]
Verdict == IF tid > 0 /\ status = "ok" THEN PrintT(<<"ACCEPT", tid>>) ELSE TRUE
Mark(ok) == status' = IF ok THEN status ELSE "rej"

Init == l = 1 /\ tid = 0 /\ status = "ok" /\ S = [kind |-> "none"] /\ k = [step |-> -1, time |-> 0]

Setup == /\ Is("setup") /\ Verdict
         /\ tid' = Ev.tid /\ status' = "ok" /\ S' = Ev
         /\ k' = IF Ev.kind = "clock" THEN ClockInit(Ev.clock) ELSE k
Eof == Is("eof") /\ Verdict /\ UNCHANGED <<tid, status, S, k>>

C == S.clock
\* the constructor returned: the clock must be valid and stand one step before start
Made == /\ Is("made")
        /\ Mark(All(<<Check("clock.accepts_only_valid", ValidClock(C)),
                      Check("clock.init.step", Ev.step = -1),
                      Check("clock.init.time", Ev.time = ClockTime(C, -1) /\ ~Ev.off),
                      Check("clock.nsteps", Ev.nsteps = Nsteps(C)),
                      Check("clock.reference", Ev.ref = Ref(C))>>))
        /\ UNCHANGED <<tid, S, k>>
Refused == /\ Is("refused")
           /\ Mark(Check("clock.refuses_only_invalid", ~ValidClock(C)))
           /\ UNCHANGED <<tid, S, k>>
\* one update(): the spec ticks its own clock; the logged reading must agree
Tick == /\ Is("tick")
        /\ LET k2 == ClockTick(C, k) IN
           /\ Mark(All(<<Check("tick.step", Ev.step = k2.step),
                         Check("tick.time", Ev.time = k2.time /\ Ev.time = ClockTime(C, k2.step)),
                         Check("tick.nctime.s", Ev.ncs = NcNum(C, k2.step)),
                         Check("tick.nctime.m", Ev.ncm = NcNum(C, k2.step)),
                         Check("tick.nctime.h", Ev.nch = NcNum(C, k2.step)),
                         Check("tick.lattice", ~Ev.off)>>))
           /\ k' = k2
        /\ UNCHANGED <<tid, S>>
\* conversions for an arbitrary step number n (also before start and after stop)
Conv == /\ Is("conv")
        /\ Mark(All(<<Check("conv.step2time", Ev.time = ClockTime(C, Ev.n)),
                      Check("conv.step2isotime", Ev.iso = ClockTime(C, Ev.n)),
                      Check("conv.time2step.inverse", Ev.back = Ev.n),
                      Check("conv.step2nctime.s", Ev.ncs = NcNum(C, Ev.n)),
                      Check("conv.step2nctime.m", Ev.ncm = NcNum(C, Ev.n)),
                      Check("conv.step2nctime.h", Ev.nch = NcNum(C, Ev.n)),
                      Check("conv.lattice", ~Ev.off)>>))
        /\ UNCHANGED <<tid, S, k>>
\* time2step for an arbitrary time (floor)
T2S == /\ Is("t2s")
       /\ Mark(Check("conv.time2step.floor", Ev.step = TimeToStep(C, Ev.t)))
       /\ UNCHANGED <<tid, S, k>>
Units == /\ Is("units")
         /\ Mark(All(<<Check("units.word", Ev.word = UnitWord(Ev.u)),
                       Check("units.reference", Ev.ref = Ref(C))>>))
         /\ UNCHANGED <<tid, S, k>>
\* a period spelling handed to normalize_period
Per == /\ Is("period")
       /\ LET want == Secs(Ev.sp) IN
          Mark(All(<<Check("period.accept", (want # Reject) => Ev.ok),
                     Check("period.reject", (want = Reject) => ~Ev.ok),
                     Check("period.value", (want # Reject /\ Ev.ok) => Ev.secs = want)>>))
       /\ UNCHANGED <<tid, S, k>>

\* duration2iso: the produced string is the specification's formatting of the duration
Fmt == /\ Is("format")
       /\ Mark(All(<<Check("format.iso", Ev.toks = FormatIso(Ev.secs)),
                     Check("format.reads_back", IsoSecsD(Ev.toks) = Ev.secs)>>))
       /\ UNCHANGED <<tid, S, k>>
Next == Fmt \/ Setup \/ Eof \/ Made \/ Refused \/ Tick \/ Conv \/ T2S \/ Units \/ Per
Spec == Init /\ [][Next]_vars
Accepted == TLCGet("stats").diameter - 1 = Len(Tr)
=============================================================================
