---------------------------- MODULE PstateTrace ----------------------------
(* Trace validation of the real ladim.state.State against Pstate.tla (C05): after every operation the
   projected real state must equal the state the spec's own operator produces, and every identity
   invariant is evaluated on it.                                                                    *)
EXTENDS Pstate, TLC, Json, IOUtils
Tr == ndJsonDeserialize(IOEnv.TRACE_FILE)
VARIABLES l, tid, status, st
vars == <<l, tid, status, st>>
Ev == Tr[l]
Is(e) == l <= Len(Tr) /\ Tr[l].ev = e /\ l' = l + 1
Check(name, c) == c \/ (PrintT(<<"REJECT", tid, l, name>>) /\ FALSE)
All(t) == \A i \in DOMAIN t : t[i]
Verdict == IF tid > 0 /\ status = "ok" THEN PrintT(<<"ACCEPT", tid>>) ELSE TRUE
Mark(ok) == status' = IF ok THEN status ELSE "rej"

Obs(p) == [iv |-> [pid |-> p.pid, alive |-> p.alive, tag |-> p.tag, age |-> p.age, mark |-> p.mark], pv |-> [ptag |-> p.ptag], npid |-> p.npid]
WellShaped(p) == \A i \in 1..Len(p.lens) : p.lens[i] = Len(p.pid)
Invs(s) == <<Check("inv.pids_increasing", PidsIncreasing(s)), Check("inv.pid_ge_index", PidGeIndex(s)),
             Check("inv.pid_below_npid", PidsBelowNpid(s)), Check("inv.values_follow_particle", TagFollows(s))>>
\* compare, then continue from the observed state so that the rest of the trace is still examined
Step(name, want) ==
   /\ Mark(All(<<Check(name \o ".arrays_equally_long", WellShaped(Ev.post)),
                 Check(name \o ".state", Obs(Ev.post) = want)>> \o Invs(Obs(Ev.post))))
   /\ st' = Obs(Ev.post)
   /\ UNCHANGED tid

Init == l = 1 /\ tid = 0 /\ status = "ok" /\ st = Empty
Setup == Is("setup") /\ Verdict /\ tid' = Ev.tid /\ status' = "ok" /\ st' = Empty
Eof == Is("eof") /\ Verdict /\ UNCHANGED <<tid, status, st>>
TAppend  == Is("append") /\ Step("append", Append_(st, Ev.k, Ev.ages))
TKill    == Is("kill") /\ Step("kill", IF Ev.i + 1 \in 1..Len_(st) THEN Kill_(st, Ev.i + 1) ELSE st)
TKillMany == Is("killmany") /\ Step("kill", KillMany_(st, { Ev.is[k] + 1 : k \in 1..Len(Ev.is) } \cap (1..Len_(st))))
TCompact == Is("compactify") /\ Step("compactify", Compactify_(st))
TIncAge  == Is("incage") /\ Step("incage", IncAge_(st))
TCopy    == Is("copyage") /\ Step("copyage", CopyAge_(st))
TBump    == Is("bump") /\ Step("bump", IF Ev.i + 1 \in 1..Len_(st) THEN Bump_(st, Ev.i + 1) ELSE st)
Next == TKillMany \/ TCopy \/ TBump \/ Setup \/ Eof \/ TAppend \/ TKill \/ TCompact \/ TIncAge
Spec == Init /\ [][Next]_vars
Accepted == TLCGet("stats").diameter - 1 = Len(Tr)
=============================================================================
