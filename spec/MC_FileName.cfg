CONSTANTS MAXLEN = 6
 MAXK = 5
SPECIFICATION Spec
INVARIANT Distinct
INVARIANT Consecutive
INVARIANT KeepsBase
INVARIANT Chain
CHECK_DEADLOCK FALSE
