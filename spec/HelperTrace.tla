---------------------------- MODULE HelperTrace ----------------------------
(* The analytic-velocity helpers of ladim/analytical.py (get_velocity1/2/4) against Tableau.tla (C01): with a scripted
   sample function (every call returns fresh lattice values) the positions the helper asks for and the velocity it returns
   must be the scheme's stages and weighted sum.  Units: positions 1/4096, velocities 1/64, results 1/(6 * 4096).     *)
EXTENDS Tableau, Sequences, TLC, Json, IOUtils
Tr == ndJsonDeserialize(IOEnv.TRACE_FILE)
VARIABLES l, tid, status
vars == <<l, tid, status>>
Ev == Tr[l]
Is(e) == l <= Len(Tr) /\ Tr[l].ev = e /\ l' = l + 1
Check(name, c) == c \/ (PrintT(<<"REJECT", tid, l, name>>) /\ FALSE)
All(t) == \A i \in DOMAIN t : t[i]
Verdict == IF tid > 0 /\ status = "ok" THEN PrintT(<<"ACCEPT", tid>>) ELSE TRUE
Mark(ok) == status' = IF ok THEN status ELSE "rej"
Init == l = 1 /\ tid = 0 /\ status = "ok"
Setup == Is("setup") /\ Verdict /\ tid' = Ev.tid /\ status' = "ok"
Eof == Is("eof") /\ Verdict /\ UNCHANGED <<tid, status>>
\* position after advancing by c (= c2/2 or sn/sd) * dt * u :  u in 1/64 -> 64 position quanta per velocity quantum
Adv(x0, num, den, dt, u) == x0 + (num * dt * u * 64) \div den
ExactAdv(num, den, dt, u) == (num * dt * u * 64) % den = 0
R == 6 * 4096
Helper ==
   /\ Is("helper")
   /\ LET e == Ev   n == Len(e.calls)
          pos(k) == e.calls[k]            \* [x, y] requested      vel(k) == e.given[k]   [u, v] handed back
          u(k) == e.given[k][1]   v(k) == e.given[k][2]
      IN Mark(All(<<
         Check("helper.lattice", ~e.off),
         Check("helper.ncalls", n = (IF e.which = 1 THEN 1 ELSE IF e.which = 2 THEN 2 ELSE 4)),
         Check("helper.stage1", n >= 1 => (pos(1)[1] = e.x0 /\ pos(1)[2] = e.y0)),
         Check("helper.rk2.stage", (e.which = 2 /\ n = 2) => (/\ ExactAdv(e.sn, e.sd, e.dt, u(1)) /\ ExactAdv(e.sn, e.sd, e.dt, v(1))
                                                               /\ pos(2)[1] = Adv(e.x0, e.sn, e.sd, e.dt, u(1)) /\ pos(2)[2] = Adv(e.y0, e.sn, e.sd, e.dt, v(1)))),
         \* result * 2 sn = (2 sn - sd) u1 + sd u2     (result in 1/R, u in 1/64: factor R/64 = 384)
         Check("helper.rk2.weights", (e.which = 2 /\ n = 2) => (/\ e.res[1] * 2 * e.sn = 384 * (Fam2B1(e.sn, e.sd) * u(1) + Fam2B2(e.sn, e.sd) * u(2))
                                                                 /\ e.res[2] * 2 * e.sn = 384 * (Fam2B1(e.sn, e.sd) * v(1) + Fam2B2(e.sn, e.sd) * v(2)))),
         Check("helper.rk4.stages", (e.which = 4 /\ n = 4) => \A k \in 2..4 :
                   /\ pos(k)[1] = Adv(e.x0, C2("RK4", k), 2, e.dt, u(k - 1)) /\ pos(k)[2] = Adv(e.y0, C2("RK4", k), 2, e.dt, v(k - 1))),
         Check("helper.rk4.weights", (e.which = 4 /\ n = 4) =>
                   /\ e.res[1] * 6 = 384 * (W6("RK4", 1) * u(1) + W6("RK4", 2) * u(2) + W6("RK4", 3) * u(3) + W6("RK4", 4) * u(4))
                   /\ e.res[2] * 6 = 384 * (W6("RK4", 1) * v(1) + W6("RK4", 2) * v(2) + W6("RK4", 3) * v(3) + W6("RK4", 4) * v(4))),
         Check("helper.ef", (e.which = 1 /\ n = 1) => (e.res[1] = 384 * u(1) /\ e.res[2] = 384 * v(1)))>>))
   /\ UNCHANGED tid
\* measured convergence order of the real Tracker on an analytic rotation with time-dependent angular velocity (no interpolation
\* error): slopes log2(err(dt) / err(dt/2)) * 1000, wide bands  p - 0.3 <= slope <= p + 0.5  (OrderOK, DESIGN 6 C01 / 7)
OrderEv == /\ Is("order")
           /\ Mark(All(<<Check("order.measured", ~Ev.bad /\ Len(Ev.slopes) >= 2),
                         Check("order.slope_in_band", \A k \in 1..Len(Ev.slopes) : Ev.slopes[k] >= 1000 * Order(Ev.adv) - 300 /\ Ev.slopes[k] <= 1000 * Order(Ev.adv) + 500)>>))
           /\ UNCHANGED tid
\* the same through the real ROMS forcing (float32 fields: only refinements above the storage noise are passed; lower band p - 1)
Order32 == /\ Is("order32")
           /\ Mark(All(<<Check("order.measured", ~Ev.bad /\ Len(Ev.slopes) >= 1),
                         Check("order.slope_in_band", \A k \in 1..Len(Ev.slopes) : Ev.slopes[k] >= 1000 * Order(Ev.adv) - 1000 + 250 /\ Ev.slopes[k] <= 1000 * Order(Ev.adv) + 1000)>>))
           /\ UNCHANGED tid
Crash == Is("crash") /\ Mark(Check("run.crashed", FALSE)) /\ UNCHANGED tid
Next == Setup \/ Eof \/ Helper \/ OrderEv \/ Order32 \/ Crash
Spec == Init /\ [][Next]_vars
Accepted == TLCGet("stats").diameter - 1 = Len(Tr)
=============================================================================
