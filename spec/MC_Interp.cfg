CONSTANTS IMAX = 8
 JMAX = 7
 Q = 4
 WI = 2
 WJ = 2
SPECIFICATION Spec
INVARIANT LocalIsGlobal
INVARIANT InBounds
INVARIANT OwnCellLoaded
INVARIANT MaskIsLandFaces
INVARIANT Convex
INVARIANT LinearExact
INVARIANT ValidInsideClipped
CHECK_DEADLOCK FALSE
