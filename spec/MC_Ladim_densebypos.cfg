CONSTANTS MAXKILL = 1
 MAXPID = 3
 W = 5
 NSTEPS = 5
 CacheMode = "state"
 Layout = "dense_bypos"
 CompactMode = "output"
 NpidMode = "count"
SPECIFICATION Spec
INVARIANT DenseAddressing
CHECK_DEADLOCK FALSE
