CONSTANTS MAXLEN = 5
 ALPHA = {"P", "T", "H", "M", "S", "0", "1", "7", "x", "h"}
 DURS = {0, 1, 30, 60, 90, 600, 3600, 7200}
SPECIFICATION Spec
INVARIANT ScannerIsLanguage
INVARIANT ShapeLaw
INVARIANT SpellingsAgree
INVARIANT IsoAgrees
INVARIANT Malformed
INVARIANT FormatRoundTrip
CHECK_DEADLOCK FALSE
