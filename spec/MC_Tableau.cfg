SPECIFICATION Spec
INVARIANT OrderExact
CHECK_DEADLOCK FALSE
