---------------------------- MODULE MC_Startup ----------------------------
(* Cross-module consistency of the refusal criterion (C20) with the operational forcing model (C03):
   the start-up test works on real times (first frame <= earlier end of the window, last frame >= later end, frames strictly
   sorted in file order), the forcing model works in simulation steps (Frames!Covered) and needs a bracketing pair of frames
   for every half step of the run.  For every clock on a small time lattice (both directions, stop on and off the step grid)
   and every set of frame times on the model time grid:
     NotRefusedNeverExtrapolates   a set-up that passes the start-up test gives a covered layout and every time the tracker
                                   can ask for (half steps 0 .. 2 nsteps) lies between two frames - "never runs on with
                                   extrapolated data"
     RefusedOnlyIfNeeded           a sorted set of frames that fails the test really lacks forcing inside [start, stop]
                                   (the test asks for the stop time itself, which a stop off the step grid does not reach) *)
EXTENDS Startup, TLC
CONSTANTS TMAX, DTS
VARIABLES c, ft
vars == <<c, ft>>
Fr == INSTANCE Frames WITH SwitchRule <- "byfile"

RECURSIVE SortedSeq(_)
SortedSeq(S) == IF S = {} THEN <<>> ELSE LET m == CHOOSE x \in S : \A y \in S : x <= y IN <<m>> \o SortedSeq(S \ {m})
Reverse(s) == [i \in 1..Len(s) |-> s[Len(s) + 1 - i]]
Init == /\ \E st \in 0..TMAX, sp \in 0..TMAX, dt \in DTS, rv \in BOOLEAN :
              c = [start |-> st, stop |-> sp, dt |-> dt, rev |-> rv, ref |-> 0, hasref |-> FALSE]
        /\ ft = <<>>
\* frame times: any non-empty set of times on the model time grid (in file order = ascending time)
Choose == /\ ft = <<>>
          /\ \E S \in (SUBSET { t \in 0..TMAX : (t - c.start) % c.dt = 0 }) \ {{}} : ft' = SortedSeq(S)
          /\ UNCHANGED c
Spec == Init /\ [][Choose]_vars

\* the layout in simulation order
SimSteps == LET s == [i \in 1..Len(ft) |-> Sim(c, ft[i]) \div c.dt] IN IF c.rev THEN Reverse(s) ELSE s
Passes == ValidClock(c) /\ c.start # c.stop /\ FramesSorted(ft) /\ FramesCover(ft, c)
Bracketed(fs, s2) == \E k \in 1..Len(fs) : 2 * fs[k] = s2 \/ (k < Len(fs) /\ 2 * fs[k] <= s2 /\ s2 <= 2 * fs[k + 1])
NotRefusedNeverExtrapolates ==
   (ft # <<>> /\ Passes) =>
      LET fs == SimSteps IN
      /\ \A i \in 1..(Len(fs) - 1) : fs[i] < fs[i + 1]
      /\ Fr!Covered([fs |-> fs, nsteps |-> Nsteps(c)])
      /\ \A s2 \in 0..(2 * Nsteps(c)) : Bracketed(fs, s2)
RefusedOnlyIfNeeded ==
   (ft # <<>> /\ ValidClock(c) /\ c.start # c.stop /\ ~FramesCover(ft, c)) =>
      \E t \in Lo(c)..Hi(c) : ~(\E i \in 1..Len(ft) : ft[i] <= t) \/ ~(\E i \in 1..Len(ft) : ft[i] >= t)
=============================================================================
