------------------------------- MODULE Tableau -------------------------------
(* Butcher tableaux of the advection schemes (ladim/tracker.py: EF, RK2 = midpoint, RK4 = classical), in integers:
   C2 = 2 c_k (fractional time of stage k), A2 = 2 a_kj, W6 = 6 b_k.  Every stage uses the previous stage only. *)
EXTENDS Integers
NStages(adv) == CASE adv = "EF" -> 1 [] adv = "RK2" -> 2 [] adv = "RK4" -> 4 [] OTHER -> 0
C2(adv, k) == CASE adv = "RK2" -> (IF k = 1 THEN 0 ELSE 1)
                [] adv = "RK4" -> (CASE k = 1 -> 0 [] k = 2 -> 1 [] k = 3 -> 1 [] OTHER -> 2)
                [] OTHER -> 0
A2(adv, k, j) == IF j = k - 1 THEN C2(adv, k) ELSE 0
W6(adv, k) == CASE adv = "EF" -> 6
                [] adv = "RK2" -> (IF k = 2 THEN 6 ELSE 0)
                [] adv = "RK4" -> (CASE k = 1 -> 1 [] k = 2 -> 2 [] k = 3 -> 2 [] OTHER -> 1)
                [] OTHER -> 0
\* the one-parameter family of two-stage schemes of ladim/analytical.py (get_velocity2): c_2 = s, b = (1 - 1/(2s), 1/(2s))
\* with s = sn/sd:  2 sn b_1 = 2 sn - sd,  2 sn b_2 = sd  ; order 2 for every s: b_1 + b_2 = 1, b_2 c_2 = 1/2
Fam2B1(sn, sd) == 2 * sn - sd
Fam2B2(sn, sd) == sd
Fam2Order2(sn, sd) == /\ Fam2B1(sn, sd) + Fam2B2(sn, sd) = 2 * sn             \* sum b = 1  (times 2 sn)
                      /\ Fam2B2(sn, sd) * sn * 2 = 2 * sn * sd                  \* b_2 c_2 = 1/2  (times 2 sn * 2 sd)
Order(adv) == CASE adv = "EF" -> 1 [] adv = "RK2" -> 2 [] adv = "RK4" -> 4 [] OTHER -> 0
=============================================================================
