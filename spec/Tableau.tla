------------------------------- MODULE Tableau -------------------------------
(* Butcher tableaux of the advection schemes (ladim/tracker.py: EF, RK2 = midpoint, RK4 = classical), in integers:
   C2 = 2 c_k (fractional time of stage k), A2 = 2 a_kj, W6 = 6 b_k.  Every stage uses the previous stage only. *)
EXTENDS Integers
NStages(adv) == CASE adv = "EF" -> 1 [] adv = "RK2" -> 2 [] adv = "RK4" -> 4 [] OTHER -> 0
C2(adv, k) == CASE adv = "RK2" -> (IF k = 1 THEN 0 ELSE 1)
                [] adv = "RK4" -> (CASE k = 1 -> 0 [] k = 2 -> 1 [] k = 3 -> 1 [] OTHER -> 2)
                [] OTHER -> 0
A2(adv, k, j) == IF j = k - 1 THEN C2(adv, k) ELSE 0
W6(adv, k) == CASE adv = "EF" -> 6
                [] adv = "RK2" -> (IF k = 2 THEN 6 ELSE 0)
                [] adv = "RK4" -> (CASE k = 1 -> 1 [] k = 2 -> 2 [] k = 3 -> 2 [] OTHER -> 1)
                [] OTHER -> 0
Order(adv) == CASE adv = "EF" -> 1 [] adv = "RK2" -> 2 [] adv = "RK4" -> 4 [] OTHER -> 0
=============================================================================
