----------------------------- MODULE MC_Vertical -----------------------------
(* Exhaustive check of the vertical grid laws (C12, C17):
   (1) level lookup Z2S on every strictly increasing integer level column (2..MAXN levels in -ZMAX..-1) and every
       depth: index pair exists, weight in [0,1], weighted level depth = depth clamped to the level range;
   (2) rational s-level depths SDepth for every strictly increasing stretching function on a staggered grid of
       2N+1 points (values in CD-ths), both transforms: rho- and w-levels strictly increasing inside [-h, 0],
       w starts at -h, ends at 0, rho- and w-levels interleave.                                        *)
EXTENDS Vertical, TLC
CONSTANTS MAXN, ZMAX, CD, HS, HCS
VARIABLES kind, col, zneg, cs, h, hc, vt
vars == <<kind, col, zneg, cs, h, hc, vt>>

\* grow strictly increasing sequences by actions (no big sets in Init)
Init == /\ kind \in {"lookup", "sdepth"} /\ col = <<>> /\ zneg = 0 /\ cs = <<0 - CD>> /\ h \in HS /\ hc \in HCS /\ vt \in {1, 2}
GrowCol == /\ kind = "lookup" /\ Len(col) < MAXN
           /\ \E z \in (0 - ZMAX)..(0 - 1) : (IF col = <<>> THEN TRUE ELSE z > col[Len(col)]) /\ col' = Append(col, z)
           /\ UNCHANGED <<kind, zneg, cs, h, hc, vt>>
Probe == /\ kind = "lookup" /\ Len(col) >= 1
         /\ \E z \in (0 - ZMAX - 3)..3 : zneg' = z
         /\ UNCHANGED <<kind, col, cs, h, hc, vt>>
GrowC == /\ kind = "sdepth" /\ cs[Len(cs)] < 0 /\ Len(cs) < 2 * MAXN + 1
         /\ \E c \in (cs[Len(cs)] + 1)..0 : cs' = Append(cs, c)
         /\ UNCHANGED <<kind, col, zneg, h, hc, vt>>
Next == GrowCol \/ Probe \/ GrowC
Spec == Init /\ [][Next]_vars

LookupLaw == (kind = "lookup" /\ Len(col) >= 1) => LookupOK(col, zneg)

\* complete stretching function: 2N+1 staggered values -CD = c_0 < c_1 < ... < c_2N = 0 ; w-level k at index 2k, rho-level k at 2k-1
Complete == kind = "sdepth" /\ Len(cs) >= 3 /\ Len(cs) % 2 = 1 /\ cs[Len(cs)] = 0
N == (Len(cs) - 1) \div 2
ZW(k) == SDepth(h, hc, cs[2 * k + 1], CD, SW(k, N), vt)          \* k = 0..N
ZR(k) == SDepth(h, hc, cs[2 * k], CD, SRho(k, N), vt)            \* k = 1..N
ValidSetup == hc <= h                                            \* Vtransform 1 needs hc <= h; kept for both
SDepthLaw == (Complete /\ ValidSetup) =>
   /\ ZW(0)[1] = (0 - h) * ZW(0)[2] /\ ZW(N)[1] = 0                                     \* w starts at -h, ends at 0
   /\ \A k \in 1..N : RatLess(ZW(k - 1), ZR(k)) /\ RatLess(ZR(k), ZW(k))                \* interleaving (hence increasing)
   /\ \A k \in 1..N : RatLeq(<<0 - h, 1>>, ZR(k)) /\ RatLeq(ZR(k), <<0, 1>>)            \* inside the water column
=============================================================================
