CONSTANTS SwitchRule = "byfile"
 LO = 2
 HI = 8
 MAXFR = 5
 MAXFILES = 3
SPECIFICATION Spec
INVARIANT InterpOK
INVARIANT ScalOK
INVARIANT ScalFileOK
INVARIANT VelReadsOK
INVARIANT ReadBudget
CHECK_DEADLOCK FALSE
