CONSTANTS MAXKILL = 1
 MAXPID = 3
 W = 5
 NSTEPS = 5
 CacheMode = "state"
 NpidMode = "count"
SPECIFICATION Spec
INVARIANT EmitScenario
CHECK_DEADLOCK FALSE
