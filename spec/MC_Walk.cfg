CONSTANTS QP = 256
 QZ = 16
 NP = 2
 NS = 3
 S16 = 128
 SZ16 = 16
 DX = 128
 Shared = FALSE
SPECIFICATION Spec
INVARIANT Unbiased
INVARIANT Variance
INVARIANT IndepXY
INVARIANT IndepPart
CHECK_DEADLOCK FALSE
