---------------------------- MODULE ReleaseTrace ----------------------------
(* Trace validation of the real ParticleReleaser (+ TimeKeeper + State) against Release.tla (C04, C10, C20).
   setup: cfg, table (rows with payload).  Then `refused` or `made`, then one `release` event per step with
   the particles that appeared in the state during release.update().                                *)
EXTENDS Release, TLC, Json, IOUtils
Tr == ndJsonDeserialize(IOEnv.TRACE_FILE)
VARIABLES l, tid, status, S, npid, step
vars == <<l, tid, status, S, npid, step>>
Ev == Tr[l]
Is(e) == l <= Len(Tr) /\ Tr[l].ev = e /\ l' = l + 1
Check(name, c) == c \/ (PrintT(<<"REJECT", tid, l, name>>) /\ FALSE)
All(t) == \A i \in DOMAIN t : t[i]
\* complete: refused, crashed, or one release call for every step of the run
Complete == \/ Tr[l - 1].ev \in {"refused", "crash"}
            \/ (Tr[l - 1].ev = "release" /\ Tr[l - 1].step = Nsteps(S.cfg) - 1)
            \/ (Tr[l - 1].ev = "made" /\ Nsteps(S.cfg) = 0)
Verdict == IF tid = 0 THEN TRUE
           ELSE IF ~Complete THEN PrintT(<<"REJECT", tid, l, "trace.incomplete">>)
           ELSE IF status = "ok" THEN PrintT(<<"ACCEPT", tid>>) ELSE TRUE
Mark(ok) == status' = IF ok THEN status ELSE "rej"

Init == l = 1 /\ tid = 0 /\ status = "ok" /\ S = [none |-> 0] /\ npid = 0 /\ step = -1
Setup == Is("setup") /\ Verdict /\ tid' = Ev.tid /\ status' = "ok" /\ S' = Ev /\ npid' = 0 /\ step' = -1
Eof == Is("eof") /\ Verdict /\ UNCHANGED <<tid, status, S, npid, step>>

\* a set-up inside the quantifier of C04 (sorted in simulation order; tick-aligned in continuous mode)
ValidSetup == /\ ValidClock(S.cfg) /\ S.cfg.start # S.cfg.stop
              /\ \A i \in 1..(Len(S.table) - 1) : BeforeEq(S.cfg, S.table[i].t, S.table[i + 1].t)

Refused == /\ Is("refused")
           /\ Mark(All(<<Check("setup.valid", ValidSetup),
                         Check("release.refuses_only_empty", NoRowInWindow(S.cfg, S.table))>>))
           /\ UNCHANGED <<tid, S, npid, step>>
Made == /\ Is("made")
        /\ Mark(All(<<Check("setup.valid", ValidSetup),
                      Check("startup.empty_release_refused", ~NoRowInWindow(S.cfg, S.table) \/ TailRelease(S.cfg, S.table))>>))
        /\ UNCHANGED <<tid, S, npid, step>>

\* release time stamped on a particle: the row's own time (discrete) or the tick time (continuous)
RelTime(r, st) == IF S.cfg.cont THEN ClockTime(S.cfg, st) ELSE r.t
Rel == /\ Is("release")
       /\ LET rows == Expand(DeclAt(S.cfg, S.table, step + 1))
              new  == Ev.new
              n    == IF Len(new) < Len(rows) THEN Len(new) ELSE Len(rows)
          IN /\ Mark(All(<<Check("release.step", Ev.step = step + 1),
                           Check("release.after_start_up", Tr[l - 1].ev \in {"made", "release"}),
                           Check("release.count", Len(new) = Len(rows)),
                           Check("release.no_off_lattice", ~Ev.off),
                           Check("release.pids", \A i \in 1..Len(new) : new[i].pid = npid + i - 1),
                           Check("release.rows_in_order", \A i \in 1..n : new[i].pay.id = rows[i].pay.id),
                           Check("release.payload", \A i \in 1..n : new[i].pay = rows[i].pay),
                           Check("release.time_stamp", \A i \in 1..n : new[i].rt = RelTime(rows[i], step + 1)),
                           Check("release.alive_active", \A i \in 1..Len(new) : new[i].alive /\ new[i].active),
                           Check("release.total_so_far", Ev.npid = npid + Len(new))>>))
             /\ npid' = Ev.npid /\ step' = step + 1
       /\ UNCHANGED <<tid, S>>
Crash == Is("crash") /\ Mark(Check("run.crashed", FALSE)) /\ UNCHANGED <<tid, S, npid, step>>
Next == Setup \/ Eof \/ Refused \/ Made \/ Rel \/ Crash
Spec == Init /\ [][Next]_vars
Accepted == TLCGet("stats").diameter - 1 = Len(Tr)
=============================================================================
