CONSTANTS TMAX = 8
 DTS = {1, 2, 3}
SPECIFICATION Spec
INVARIANT NotRefusedNeverExtrapolates
INVARIANT RefusedOnlyIfNeeded
CHECK_DEADLOCK FALSE
