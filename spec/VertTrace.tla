---------------------------- MODULE VertTrace ----------------------------
(* Trace validation of the real vertical-grid code (ladim/ROMS.py: z2s, sdepth, s_stretch, Grid.z_r / z_w) against
   Vertical.tla (C12, C17).  Exact events (`z2s`, `sdepth`) use the lattice encoding; events about transcendental
   curves (`curve`, `levels`, `lookup`) log quantised values and the invariants are evaluated with interval semantics. *)
EXTENDS Vertical, TLC, Json, IOUtils
Tr == ndJsonDeserialize(IOEnv.TRACE_FILE)
VARIABLES l, tid, status
vars == <<l, tid, status>>
Ev == Tr[l]
Is(e) == l <= Len(Tr) /\ Tr[l].ev = e /\ l' = l + 1
Check(name, c) == c \/ (PrintT(<<"REJECT", tid, l, name>>) /\ FALSE)
All(t) == \A i \in DOMAIN t : t[i]
Verdict == IF tid > 0 /\ status = "ok" THEN PrintT(<<"ACCEPT", tid>>) ELSE TRUE
Mark(ok) == status' = IF ok THEN status ELSE "rej"
Abs(x) == IF x < 0 THEN 0 - x ELSE x
A20 == 1048576
Init == l = 1 /\ tid = 0 /\ status = "ok"
Setup == Is("setup") /\ Verdict /\ tid' = Ev.tid /\ status' = "ok"
Eof == Is("eof") /\ Verdict /\ UNCHANGED <<tid, status>>

\* exact lookup on an integer column: code K is the 0-based index of the upper level; Aq = A * 2^20
TZ2S == /\ Is("z2s")
        /\ LET r == Z2S(Ev.zr, Ev.zneg) IN
           Mark(All(<<Check("z2s.model_law", LookupOK(Ev.zr, Ev.zneg)),
                      Check("z2s.index", Ev.K + 1 = r.K \/ (Len(Ev.zr) = 1 /\ Ev.K = 0)),
                      Check("z2s.weight", Abs(Ev.Aq * r.ad - r.an * A20) <= r.ad),
                      Check("z2s.weight_range", Ev.Aq >= 0 /\ Ev.Aq <= A20)>>))
        /\ UNCHANGED tid
\* exact rational level depths: z[k] * den = num * zden
TSDepth == /\ Is("sdepth")
           /\ LET N == Len(Ev.cn)
                  S(k) == IF Ev.stagger = "rho" THEN SRho(k, N) ELSE SW(k - 1, N - 1)
                  want(k) == SDepth(Ev.h, Ev.hc, Ev.cn[k], Ev.cd, S(k), Ev.vt)
              IN Mark(All(<<Check("sdepth.lattice", ~Ev.off),
                            Check("sdepth.len", Len(Ev.z) = N),
                            Check("sdepth.value", \A k \in 1..N : Ev.z[k] * want(k)[2] = want(k)[1] * Ev.zden)>>))
           /\ UNCHANGED tid
Increasing(s) == \A k \in 1..(Len(s) - 1) : s[k] < s[k + 1]
\* stretching curves, quantum 2^-24: rise monotonically from -1 to 0, rho values between the neighbouring w values
TCurve == /\ Is("curve")
          /\ LET one == 16777216  N == Len(Ev.cr) IN
             Mark(All(<<Check("curve.finite", ~Ev.bad),
                        Check("curve.len", Len(Ev.cw) = N + 1),
                        Check("curve.w_from_minus_one_to_zero", Abs(Ev.cw[1] + one) <= 1 /\ Abs(Ev.cw[N + 1]) <= 1),
                        Check("curve.w_increasing", Increasing(Ev.cw)),
                        Check("curve.rho_increasing", Increasing(Ev.cr)),
                        Check("curve.rho_in_range", \A k \in 1..N : Ev.cr[k] >= 0 - one /\ Ev.cr[k] <= 0),
                        Check("curve.interleave", \A k \in 1..N : Ev.cw[k] <= Ev.cr[k] /\ Ev.cr[k] <= Ev.cw[k + 1])>>))
          /\ UNCHANGED tid
\* level depths of one grid cell, quantum 2^-16 m: inside [-h, 0], w from -h to 0, interleaving
TLevels == /\ Is("levels")
           /\ LET N == Len(Ev.zr) IN
              Mark(All(<<Check("levels.finite", ~Ev.bad),
                         Check("levels.len", Len(Ev.zw) = N + 1),
                         Check("levels.w_from_bottom_to_surface", Abs(Ev.zw[1] + Ev.h) <= 2 /\ Abs(Ev.zw[N + 1]) <= 2),
                         Check("levels.rho_increasing", Increasing(Ev.zr)),
                         Check("levels.w_increasing", Increasing(Ev.zw)),
                         Check("levels.in_water_column", \A k \in 1..N : Ev.zr[k] >= 0 - Ev.h - 2 /\ Ev.zr[k] <= 2),
                         Check("levels.interleave", \A k \in 1..N : Ev.zw[k] - 2 <= Ev.zr[k] /\ Ev.zr[k] <= Ev.zw[k + 1] + 2)>>))
           /\ UNCHANGED tid
\* lookup on real levels (quantum 2^-8 m for depths, 2^-12 for the weight): bracket and weighted depth
TLookup == /\ Is("lookup")
           /\ LET N == Len(Ev.zr)   K == Ev.K + 1   cl == Clamp(Ev.zneg, Ev.zr[1], Ev.zr[N]) IN
              Mark(All(<<Check("lookup.pair_exists", N >= 2 => (K >= 2 /\ K <= N)),
                         Check("lookup.weight_range", Ev.Aq >= 0 /\ Ev.Aq <= 4096),
                         Check("lookup.bracket", (N >= 2 /\ K >= 2 /\ K <= N) => (Ev.zr[K - 1] - 2 <= cl /\ cl <= Ev.zr[K] + 2)),
                         Check("lookup.weighted_depth", (N >= 2 /\ K >= 2 /\ K <= N) =>
                                  Abs(Ev.Aq * Ev.zr[K - 1] + (4096 - Ev.Aq) * Ev.zr[K] - 4096 * cl) <= 4096 * 3 + Abs(Ev.zr[K] - Ev.zr[K - 1]))>>))
           /\ UNCHANGED tid
\* lookup for a particle that is not at a cell centre: the level column is that of the particle's OWN cell (nearest rho point;
\* either neighbour exactly at a cell edge).  cols = the level columns of the two neighbouring cells, xq = position in quarters
OwnCol(xq) == LET c == (2 * xq + 4) \div 8   r == (2 * xq + 4) % 8 IN IF r = 0 THEN {c - 1, c} ELSE {c}
TLookup2 == /\ Is("lookup2")
            /\ Mark(Check("lookup.own_cell_column", \E c \in OwnCol(Ev.xq) : c \in {0, 1} /\
                     LET zr == Ev.cols[c + 1]   N == Len(zr)   K == Ev.K + 1   cl == Clamp(Ev.zneg, zr[1], zr[N]) IN
                     /\ K >= 2 /\ K <= N /\ zr[K - 1] - 2 <= cl /\ cl <= zr[K] + 2
                     /\ Abs(Ev.Aq * zr[K - 1] + (4096 - Ev.Aq) * zr[K] - 4096 * cl) <= 4096 * 3 + Abs(zr[K] - zr[K - 1])))
            /\ UNCHANGED tid
Crash == Is("crash") /\ Mark(Check("run.crashed", FALSE)) /\ UNCHANGED tid
Next == TLookup2 \/ Setup \/ Eof \/ TZ2S \/ TSDepth \/ TCurve \/ TLevels \/ TLookup \/ Crash
Spec == Init /\ [][Next]_vars
Accepted == TLCGet("stats").diameter - 1 = Len(Tr)
=============================================================================
