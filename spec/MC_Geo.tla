----------------------------- MODULE MC_Geo -----------------------------
(* Exhaustive check of the 2-D sampling laws (C16) on small integer fields: exact on bilinear fields, a convex
   combination of the valid corners otherwise, masked nodes ignored, "outside" exactly outside the grid.     *)
EXTENDS Geo, TLC
CONSTANTS NIc, NJc, Q, VALS
VARIABLES F, M, pos
vars == <<F, M, pos>>
\* fields: bilinear a + b i + c j + d i j, or a bilinear field with one node perturbed ; masks: all on a 2 x 2 window
Bil(a, b, c, d) == [j \in 1..NJc |-> [i \in 1..NIc |-> a + b * (i - 1) + c * (j - 1) + d * (i - 1) * (j - 1)]]
MaskOf(m) == [j \in 1..NJc |-> [i \in 1..NIc |-> IF j \in {2, 3} /\ i \in {2, 3} THEN (m \div (2 ^ (2 * (j - 2) + (i - 2)))) % 2 ELSE 1]]
Init == /\ \E a \in VALS, b \in VALS, c \in VALS, d \in VALS : F = Bil(a - 1, b - 1, c - 1, d - 1)
        /\ \E m \in 0..15 : M = MaskOf(m)
        /\ pos = <<-1, -1>>
Probe == pos = <<-1, -1>> /\ \E x \in (0 - 1)..((NIc - 1) * Q + 1), y \in (0 - 1)..((NJc - 1) * Q + 1) : pos' = <<x, y>> /\ UNCHANGED <<F, M>>
Spec == Init /\ [][Probe]_vars
On == pos # <<-1, -1>>
x == pos[1]   y == pos[2]
R0 == Sample2D(F, M, FALSE, x, y, Q)
RM == Sample2D(F, M, TRUE, x, y, Q)
\* the generating bilinear function evaluated at the position, times Q*Q
a0 == At(F, 0, 0)   b0 == At(F, 0, 1) - At(F, 0, 0)   c0 == At(F, 1, 0) - At(F, 0, 0)
d0 == At(F, 1, 1) - At(F, 0, 1) - At(F, 1, 0) + At(F, 0, 0)
ExactOnBilinear == (On /\ R0.kind = "value") => (R0.den = Q * Q /\ R0.num = a0 * Q * Q + b0 * x * Q + c0 * y * Q + d0 * x * y)
OutsideLaw == On => ((R0.kind = "outside") <=> (x < 0 \/ y < 0 \/ x >= (NIc - 1) * Q \/ y >= (NJc - 1) * Q))
Convex == (On /\ RM.kind = "value") =>
   LET c == Corners2D(F, M, TRUE, x, y, Q)
       vs == { c[k].v : k \in { k \in 1..4 : c[k].w > 0 } }
   IN \A k \in 1..4 : c[k].w >= 0 /\ \E lo \in vs, hi \in vs : lo * RM.den <= RM.num /\ RM.num <= hi * RM.den
\* masked nodes are ignored: changing the value of a masked node does not change the result
MaskedIgnored == (On /\ ~Outside(F, x, y, Q)) =>
   LET F2 == [j \in 1..NJc |-> [i \in 1..NIc |-> IF M[j][i] = 0 THEN 99 ELSE F[j][i]]]
   IN Sample2D(F2, M, TRUE, x, y, Q) = RM
UndefLaw == (On /\ RM.kind = "undef") => \A k \in 1..4 : Corners2D(F, M, TRUE, x, y, Q)[k].w = 0
=============================================================================
