----------------------------- MODULE MC_Pstate -----------------------------
(* All histories of append / kill / compactify / item update up to DEPTH operations and MAXP particles (C05).
   `gage` (expected age by pid) and `gone` (pids removed) are ghosts; `hist` records the operations and the
   state after each, for replay into the real ladim.state.State (GEN configuration).                *)
EXTENDS Pstate, TLC, Json
CONSTANTS MAXP, DEPTH, GEN
VARIABLES st, gage, gone, hist, n
vars == <<st, gage, gone, hist, n>>
view == <<st, gage, gone, n>>

Init == st = Empty /\ gage = <<>> /\ gone = {} /\ hist = <<>> /\ n = 0
Rec(op) == /\ n' = n + 1 /\ hist' = IF GEN THEN Append(hist, op @@ [post |-> st']) ELSE hist
AgeOf(mode, k) == IF mode = "default" THEN [i \in 1..k |-> 0] ELSE IF mode = "scalar" THEN [i \in 1..k |-> 7] ELSE [i \in 1..k |-> 10 + i]
DoAppend(k, mode) == /\ n < DEPTH /\ st.npid + k <= MAXP
                     /\ st' = Append_(st, k, AgeOf(mode, k))
                     /\ gage' = gage \o AgeOf(mode, k) /\ UNCHANGED gone
                     /\ Rec([op |-> "append", k |-> k, mode |-> mode])
DoKill(i) == /\ n < DEPTH /\ i \in 1..Len_(st) /\ st.iv.alive[i]
             /\ st' = Kill_(st, i) /\ UNCHANGED <<gage, gone>>
             /\ Rec([op |-> "kill", i |-> i - 1])
DoCompactify == /\ n < DEPTH
                /\ st' = Compactify_(st)
                /\ gone' = gone \cup { st.iv.pid[i] : i \in { j \in 1..Len_(st) : ~st.iv.alive[j] } }
                /\ UNCHANGED gage /\ Rec([op |-> "compactify"])
DoIncAge == /\ n < DEPTH /\ Len_(st) > 0
            /\ st' = IncAge_(st)
            /\ gage' = [p \in 1..Len(gage) |-> IF (p - 1) \in Range(st.iv.pid) THEN gage[p] + 1 ELSE gage[p]]
            /\ UNCHANGED gone /\ Rec([op |-> "incage"])
DoCopyAge == /\ n < DEPTH /\ Len_(st) > 0
             /\ st' = CopyAge_(st) /\ UNCHANGED <<gage, gone>> /\ Rec([op |-> "copyage"])
DoBump(i) == /\ n < DEPTH /\ i \in 1..Len_(st)
             /\ st' = Bump_(st, i)
             /\ gage' = [gage EXCEPT ![st.iv.pid[i] + 1] = @ + 1]
             /\ UNCHANGED gone /\ Rec([op |-> "bump", i |-> i - 1])
Next == \/ \E k \in 1..2, m \in {"default", "scalar", "array"} : DoAppend(k, m)
        \/ DoCopyAge \/ (\E i \in 1..MAXP : DoBump(i))
        \/ \E i \in 1..MAXP : DoKill(i)
        \/ DoCompactify \/ DoIncAge
Spec == Init /\ [][Next]_vars

InvEqualLen       == EqualLen(st)
InvPidsIncreasing == PidsIncreasing(st)
InvPidGeIndex     == PidGeIndex(st)
InvBelowNpid      == PidsBelowNpid(st)
InvTagFollows     == TagFollows(st)
InvAgeFollows     == \A i \in 1..Len_(st) : st.iv.age[i] = gage[st.iv.pid[i] + 1]      \* instance values follow the particle
\* a variable assigned from another one is a snapshot: in-place changes of the source never show in it
MarkIsSnapshot    == [][\A i \in 1..Len_(st) : (\E j \in 1..Len_(st') : st'.iv.pid[j] = st.iv.pid[i]) =>
                          LET j == CHOOSE j \in 1..Len_(st') : st'.iv.pid[j] = st.iv.pid[i] IN
                          st'.iv.mark[j] = st.iv.mark[i] \/ st'.iv.mark[j] = st.iv.age[i]]_vars
InvGoneStayGone   == \A i \in 1..Len_(st) : st.iv.pid[i] \notin gone
\* action properties
NeverReused  == [][/\ st'.npid >= st.npid
                   /\ \A i \in 1..Len_(st') : st'.iv.pid[i] \in Range(st.iv.pid) \/ st'.iv.pid[i] >= st.npid]_vars
CompactExact == [][(Len_(st') < Len_(st)) => IsCompaction(st, st')]_vars       \* removal drops exactly the dead, in order
SurvivorsKeep == [][\A i \in 1..Len_(st) : st.iv.alive[i] /\ Len_(st') >= Len_(st) - Cardinality({j \in 1..Len_(st) : ~st.iv.alive[j]})
                      => st.iv.pid[i] \in Range(st'.iv.pid)]_vars
Emit == (GEN /\ (n = DEPTH \/ ~ENABLED Next)) => PrintT(<<"BEH", ToJson(hist)>>)
=============================================================================
