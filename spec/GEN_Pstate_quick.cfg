CONSTANTS MAXP = 4
 DEPTH = 4
 GEN = TRUE
SPECIFICATION Spec
INVARIANT Emit
CHECK_DEADLOCK FALSE
