---------------------------- MODULE ForceTrace ----------------------------
(* Exact conformance of the real TimeKeeper + Grid + Forcing against Frames / Interp / Vertical / Fields
   (C02, C03, C10, C17).  TLC computes, from the set-up alone (frame layout in simulation order, node formula,
   loaded sub-rectangle, mask, level table), the value forcing.velocity(frac) / forcing.variables / scalar
   forcing must have at every lattice probe, and requires integer equality (lattice encoding, DESIGN 3b). *)
EXTENDS Frames, Fields, Vertical, Interp, TLC, Json, IOUtils
Tr == ndJsonDeserialize(IOEnv.TRACE_FILE)
VARIABLES l, tid, status, S
vars == <<l, tid, status, S>>
Ev == Tr[l]
Is(e) == l <= Len(Tr) /\ Tr[l].ev = e /\ l' = l + 1
Check(name, c) == c \/ (PrintT(<<"REJECT", tid, l, name>>) /\ FALSE)
All(t) == \A i \in DOMAIN t : t[i]
\* a trace is complete when the run crashed or every step of the run was observed (the observations are numbered by their step)
Complete == \/ Tr[l - 1].ev = "crash"
            \/ (Tr[l - 1].ev = "obs" /\ Tr[l - 1].step = S.nexp - 1)
            \/ (Tr[l - 1].ev = "setup" /\ S.nexp <= S.late)
Verdict == IF tid = 0 THEN TRUE
           ELSE IF ~Complete THEN PrintT(<<"REJECT", tid, l, "trace.incomplete">>)
           ELSE IF status = "ok" THEN PrintT(<<"ACCEPT", tid>>) ELSE TRUE
Mark(ok) == status' = IF ok THEN status ELSE "rej"

G == S.grid
Q == S.Q
Zr(j, i) == G.zr[j + 1][i + 1]
\* twice the node value at half-step time s2/2 in bracket n
Node2(n, s2, k, j, i, c) ==
   LET L == S.layout
       v0 == Node(S.fm, L.fidx[n], k, j, i, c)   v1 == Node(S.fm, L.fidx[n + 1], k, j, i, c)
   IN 2 * v0 + ((v1 - v0) * (s2 - 2 * L.fs[n])) \div (L.fs[n + 1] - L.fs[n])
\* expected velocity component c at probe (xq, yq, z), own cell (cj, ci): <<numerator, denominator>>, unit 1/1024 m/s
Sample(n, s2, xq, yq, z, c, cj, ci) ==
   LET ka == Z2S(Zr(cj, ci), 0 - z)
       cs == Corners(xq, yq, Q, c)
       nv(r) == IF FaceOpen(G, c, r.j, r.i)
                THEN ka.an * Node2(n, s2, Lower(ka) - 1, r.j, r.i, c) + (ka.ad - ka.an) * Node2(n, s2, Upper(ka) - 1, r.j, r.i, c)
                ELSE 0
   IN <<cs[1].w * nv(cs[1]) + cs[2].w * nv(cs[2]) + cs[3].w * nv(cs[3]) + cs[4].w * nv(cs[4]), Q * Q * ka.ad * 2>>
Sign == IF S.rev THEN -1 ELSE 1
RECURSIVE GCD(_, _)
GCD(a, b) == IF b = 0 THEN a ELSE GCD(b, a % b)
ValOK(e, pn, obs, s2, c) ==
   LET n == Bracket(S.layout.fs, s2) IN
   \E cj \in OwnCells(e.y[pn], Q), ci \in OwnCells(e.x[pn], Q) :
      LET r == Sample(n, s2, e.x[pn], e.y[pn], e.z[pn], c, cj, ci)
          g == GCD(r[2], e.den)                       \* obs / den = r[1] / r[2] as rationals (level spacings need not divide den)
      IN obs * (r[2] \div g) = Sign * r[1] * (e.den \div g)
ScalOK(e, pn) ==
   \E cj \in OwnCells(e.y[pn], Q), ci \in OwnCells(e.x[pn], Q) :
      LET ka == Z2S(Zr(cj, ci), 0 - e.z[pn])
          f  == S.layout.fidx[FloorIdx(S.layout.fs, e.step)]
      IN e.temp[pn] \in { Scal(f, Upper(ka) - 1, cj, ci), Scal(f, Lower(ka) - 1, cj, ci) }

ValidSetup(s) == /\ Len(s.layout.fs) >= 2 /\ Len(s.layout.fidx) = Len(s.layout.fs)
                 /\ \A i \in 1..(Len(s.layout.fs) - 1) : s.layout.fs[i] < s.layout.fs[i + 1]
                 /\ s.layout.fs[1] <= 0 /\ s.layout.fs[Len(s.layout.fs)] >= s.nsteps
                 /\ s.grid.i0 >= 1 /\ s.grid.j0 >= 1 /\ s.grid.i0 < s.grid.i1 /\ s.grid.j0 < s.grid.j1

Init == l = 1 /\ tid = 0 /\ status = "ok" /\ S = [none |-> 0]
Setup == Is("setup") /\ Verdict /\ tid' = Ev.tid /\ S' = Ev
         /\ status' = IF Check("setup.valid", ValidSetup(Ev)) THEN "ok" ELSE "rej"
Eof == Is("eof") /\ Verdict /\ UNCHANGED <<tid, status, S>>
P(e) == 1..Len(e.x)
Obs == /\ Is("obs")
       /\ LET e == Ev IN
          IF status # "ok" THEN UNCHANGED status ELSE
          Mark(All(<<Check("obs.lattice", ~e.off),
                     Check("obs.every_step", IF Tr[l - 1].ev = "obs" THEN e.step = Tr[l - 1].step + 1 ELSE e.step = S.late),
                     Check("obs.len", Len(e.u0) = Len(e.x) /\ Len(e.uvar) = Len(e.x)),
                     Check("obs.u.frac0", \A pn \in P(e) : ValOK(e, pn, e.u0[pn], 2 * e.step, 0)),
                     Check("obs.v.frac0", \A pn \in P(e) : ValOK(e, pn, e.v0[pn], 2 * e.step, 1)),
                     Check("obs.u.half",  \A pn \in P(e) : ValOK(e, pn, e.u1[pn], 2 * e.step + 1, 0)),
                     Check("obs.v.half",  \A pn \in P(e) : ValOK(e, pn, e.v1[pn], 2 * e.step + 1, 1)),
                     Check("obs.u.full",  \A pn \in P(e) : ValOK(e, pn, e.u2[pn], 2 * e.step + 2, 0)),
                     Check("obs.v.full",  \A pn \in P(e) : ValOK(e, pn, e.v2[pn], 2 * e.step + 2, 1)),
                     Check("obs.var.u",   \A pn \in P(e) : ValOK(e, pn, e.uvar[pn], 2 * e.step, 0)),
                     Check("obs.var.v",   \A pn \in P(e) : ValOK(e, pn, e.vvar[pn], 2 * e.step, 1)),
                     Check("obs.scalar",  S.hasscal => \A pn \in P(e) : ScalOK(e, pn))>>))
       /\ UNCHANGED <<tid, S>>
Crash == Is("crash") /\ Mark(Check("run.crashed", FALSE)) /\ UNCHANGED <<tid, S>>
Next == Setup \/ Eof \/ Obs \/ Crash
Spec == Init /\ [][Next]_vars
Accepted == TLCGet("stats").diameter - 1 = Len(Tr)
=============================================================================
