CONSTANTS MAXSTEPS = 10
 MAXOPS = 5
 MAXNUMREC = 4
SPECIFICATION Spec
INVARIANT NeverCrashes
INVARIANT AtEnd
INVARIANT ColdWindow
CHECK_DEADLOCK FALSE
