CONSTANTS MAXLEN = 5
 MAXK = 3
SPECIFICATION Spec
INVARIANT Distinct
INVARIANT Consecutive
INVARIANT KeepsBase
INVARIANT Chain
CHECK_DEADLOCK FALSE
