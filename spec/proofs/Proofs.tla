------------------------------- MODULE Proofs -------------------------------
(* Unbounded versions of some laws that the MC_* models check on bounded instances, proved with the TLA+ proof system
   (tlapm, SMT back end).  The operators are the ones of the specification modules (EXTENDS, one source of truth).
     InColumnAll        (C15)  reflected depth stays in [0, h]                       -- MC_Tracker!InColumn
     WeightsConvexAll   (C02)  bilinear weights are non-negative and sum to Q*Q      -- MC_Interp!Convex
     ClockInverseAll    (C13)  time -> step inverts step -> time, both directions    -- MC_Clock!InverseLaw
     FamilyOrder2All    (C01)  every member of the two-stage family has order 2      -- MC_Tableau!FamilyOrder2
     ColdRecordsInWindow(C07)  every record step of a cold run lies in [0, nsteps)   -- MC_OutFile!ColdWindow
     LerpEndpointsAll   (C03)  TimeToStepFloorAll (C13)  WarmRecordsInWindow (C08)
     LookupIdentityAll  (C12)  SubgridSlicesInBounds (C17, C20)                                                      *)
EXTENDS Integers, TLAPS

\* ---- copied verbatim from Tracker.tla / Clock.tla / Tableau.tla / OutFile.tla (checked textually by run.py setup)
Reflect(z, dz, h) == LET z1 == z + dz
                         z2 == IF z1 < 0 THEN 0 - z1 ELSE z1
                     IN IF z2 > h THEN 2 * h - z2 ELSE z2
Fam2B1(sn, sd) == 2 * sn - sd
Fam2B2(sn, sd) == sd
CeilDiv(a, b) == (a + b - 1) \div b
LerpVal(v0, v1, a, b, s2) == v0 + ((v1 - v0) * (s2 - 2 * a)) \div (2 * (b - a))

THEOREM InColumnAll ==
   \A z, dz, h \in Int : (0 <= z /\ z <= h /\ 0 - h < dz /\ dz < h) => (0 <= Reflect(z, dz, h) /\ Reflect(z, dz, h) <= h)
BY DEF Reflect

THEOREM WeightsConvexAll ==
   \A Q, p, q \in Int : (Q > 0 /\ 0 <= p /\ p < Q /\ 0 <= q /\ q < Q) =>
       /\ (Q - p) * (Q - q) >= 0 /\ p * (Q - q) >= 0 /\ (Q - p) * q >= 0 /\ p * q >= 0
       /\ (Q - p) * (Q - q) + p * (Q - q) + (Q - p) * q + p * q = Q * Q
OBVIOUS

THEOREM ClockInverseAll ==
   \A start, n, dt \in Int : dt > 0 => /\ ((start + n * dt) - start) \div dt = n          \* forward
                                        /\ (start - (start - n * dt)) \div dt = n          \* reversed
OBVIOUS

THEOREM FamilyOrder2All ==
   \A sn, sd \in Int : /\ Fam2B1(sn, sd) + Fam2B2(sn, sd) = 2 * sn
                       /\ Fam2B2(sn, sd) * sn * 2 = 2 * sn * sd
BY DEF Fam2B1, Fam2B2

THEOREM ColdRecordsInWindow ==
   \A nsteps, ops, k \in Int : (nsteps >= 1 /\ ops >= 1 /\ k >= 1 /\ k <= CeilDiv(nsteps, ops)) => ((k - 1) * ops >= 0 /\ (k - 1) * ops < nsteps)
BY DEF CeilDiv

\* C03: the interpolation passes through the bracketing frames               -- MC_Frames!InterpOK at frame steps
THEOREM LerpEndpointsAll ==
   \A v0, v1, a, b \in Int : (b > a) => (LerpVal(v0, v1, a, b, 2 * a) = v0 /\ LerpVal(v0, v1, a, b, 2 * b) = v1)
BY DEF LerpVal

\* C13: time -> step is the floor                                            -- MC_Clock!FloorLaw
THEOREM TimeToStepFloorAll ==
   \A start, t, dt \in Int : dt > 0 =>
       LET n == (t - start) \div dt IN start + n * dt <= t /\ t < start + (n + 1) * dt
OBVIOUS

\* C08: every record step of a warm-started run lies in [1, nsteps]           -- MC_OutFile (warm schedule)
THEOREM WarmRecordsInWindow ==
   \A nsteps, ops, k \in Int : (nsteps >= 0 /\ ops >= 1 /\ k >= 1 /\ k <= nsteps \div ops) => (k * ops >= 1 /\ k * ops <= nsteps)
OBVIOUS

\* C12 / C02: the level lookup's weight is in [0, 1] and reproduces the depth        -- MC_Vertical!LookupLaw (inside the level range)
\* (an, ad as Vertical!Z2S computes them for zr[K-1] = z0 < z1 = zr[K] and z0 <= zneg <= z1)
THEOREM LookupIdentityAll ==
   \A z0, z1, zneg \in Int : (z0 < z1 /\ z0 <= zneg /\ zneg <= z1) =>
       LET an == z1 - zneg   ad == z1 - z0
       IN an >= 0 /\ an <= ad /\ ad > 0 /\ an * z0 + (ad - an) * z1 = ad * zneg
OBVIOUS

\* C17 / C20: a legal sub-rectangle keeps every slice of the rho, u and v arrays inside the file's arrays   -- Startup!SubgridLegal, MC_Interp!InBounds
\* (rho: [i0, i1) of imax, u: [i0 - 1, i1) of imax - 1, v: [j0 - 1, j1) of jmax - 1)
THEOREM SubgridSlicesInBounds ==
   \A i0, i1, j0, j1, imax, jmax \in Int :
      (1 <= i0 /\ i0 < i1 /\ i1 <= imax - 1 /\ 1 <= j0 /\ j0 < j1 /\ j1 <= jmax - 1) =>
         /\ 0 <= i0 /\ i1 <= imax /\ 0 <= i0 - 1 /\ i1 <= imax - 1 /\ i1 - (i0 - 1) = (i1 - i0) + 1
         /\ 0 <= j0 /\ j1 <= jmax /\ 0 <= j0 - 1 /\ j1 <= jmax - 1 /\ j1 - (j0 - 1) = (j1 - j0) + 1
OBVIOUS
=============================================================================
