CONSTANTS QP = 4
 QZ = 1
 NI = 7
 NJ = 6
 DMAX = 6
 HMAX = 4
SPECIFICATION Spec
INVARIANT StaysInWater
PROPERTY DeadStayDead
PROPERTY InactiveNotMoved
PROPERTY KilledNotMoved
PROPERTY InColumn
CHECK_DEADLOCK FALSE
