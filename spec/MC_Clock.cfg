CONSTANTS TMAX = 12
 DTS = {1, 2, 3, 5}
 REFS = {0, 4, 20}
SPECIFICATION Spec
INVARIANT TimeLaw
INVARIANT InverseLaw
INVARIANT FloorLaw
INVARIANT NstepsLaw
INVARIANT WindowLaw
INVARIANT NcLaw
INVARIANT MirrorLaw
CHECK_DEADLOCK FALSE
