----------------------------- MODULE MC_Period -----------------------------
(* Exhaustive check of the period grammar (C13): the scanner (shaped like the implementation's anchored
   pattern) accepts exactly the declarative language and computes the same value, for every token
   string up to MAXLEN over ALPHA; and all accepted spellings of one duration agree.               *)
EXTENDS Period, TLC
CONSTANTS MAXLEN, ALPHA, DURS
VARIABLES s
Init == s = <<>>
Grow == Len(s) < MAXLEN /\ \E t \in ALPHA : s' = Append(s, t)
Spec == Init /\ [][Grow]_s

ScannerIsLanguage == IsoSecs(s) = IsoDecl(s)
\* strings outside the shape P T (digits letter)* are rejected, lower case included
ShapeLaw == IsoSecs(s) # Reject => /\ Len(s) >= 4 /\ s[1] = "P" /\ s[2] = "T" /\ s[Len(s)] \in {"H", "M", "S"}
                                   /\ \A i \in 3..Len(s) : s[i] \in Digit \cup {"H", "M", "S"}

\* equal durations, different spellings
Spellings(d) == {[kind |-> "int", v |-> d], [kind |-> "td", v |-> d], [kind |-> "td64", v |-> d, u |-> "s"],
                 [kind |-> "list", items |-> <<[t |-> "int", v |-> d, s |-> ""], [t |-> "str", v |-> 0, s |-> "s"]>>]}
        \cup (IF d % 60 = 0 THEN {[kind |-> "td64", v |-> d \div 60, u |-> "m"],
                 [kind |-> "list", items |-> <<[t |-> "int", v |-> d \div 60, s |-> ""], [t |-> "str", v |-> 0, s |-> "m"]>>]} ELSE {})
        \cup (IF d % 3600 = 0 THEN {[kind |-> "td64", v |-> d \div 3600, u |-> "h"],
                 [kind |-> "list", items |-> <<[t |-> "int", v |-> d \div 3600, s |-> ""], [t |-> "str", v |-> 0, s |-> "h"]>>]} ELSE {})
SpellingsAgree == \A d \in DURS : \A sp \in Spellings(d) : Secs(sp) = d
IsoAgrees == IsoSecs(s) # Reject => IsoSecs(s) \in Nat
\* a formatted duration reads back as the same number of seconds; without days it is also an accepted period spelling
FormatRoundTrip == \A d \in DURS \cup {59, 61, 3599, 3661, 86399, 86400, 86401, 90061, 172800, 1000000} :
                      /\ IsoSecsD(FormatIso(d)) = d
                      /\ (d > 0 /\ d < 86400) => IsoSecs(FormatIso(d)) = d
Malformed == /\ Secs([kind |-> "list", items |-> <<[t |-> "float", v |-> 1, s |-> ""], [t |-> "str", v |-> 0, s |-> "h"]>>]) = Reject
             /\ Secs([kind |-> "list", items |-> <<[t |-> "int", v |-> 1, s |-> ""]>>]) = Reject
             /\ Secs([kind |-> "list", items |-> <<[t |-> "int", v |-> 1, s |-> ""], [t |-> "str", v |-> 0, s |-> "min"]>>]) = Reject
             /\ Secs([kind |-> "other"]) = Reject
=============================================================================
