----------------------------- MODULE MC_Config -----------------------------
(* All feature vectors: the three renderings denote the same canonical configuration (C18).          *)
EXTENDS Config, TLC
VARIABLE fv
FVs == [cont : BOOLEAN, freq : {60, 120}, extracol : BOOLEAN, pvars : BOOLEAN, diffusion : {0, 5}, subgrid : BOOLEAN,
        gridsec : {"explicit", "nofile", "omitted"}, wildcard : BOOLEAN, hasref : BOOLEAN, optsec : {"present", "omitted"}, adv : {"EF", "RK4"},
        ibm : BOOLEAN, xforce : BOOLEAN, v1files : BOOLEAN, hdr : BOOLEAN, wildname : {"f_*.nc", "f_[0-9][0-9].nc"}]
Init == fv \in FVs
Spec == Init /\ [][UNCHANGED fv]_fv
\* a subgrid cannot be requested when the grid section is omitted altogether (version 2 has nowhere to put it)
Expressible == ~(fv.subgrid /\ fv.gridsec = "omitted")
SameMeaning == Expressible => \A f \in {"f_00.nc", "f_10.nc"} : (MeanV2(RenderV2(fv, f), f) = Canon(fv, f) /\ MeanV1(RenderV1(fv, f), f) = Canon(fv, f))
=============================================================================
