------------------------------- MODULE Ladim -------------------------------
(* The composed model (ladim/model.py, Model.update / __init__ with warm start / finish) on an abstract world:
   a 1-D channel of cells 0..W with open ends, particles with a fixed depth level, a velocity that depends on the
   level (the per-particle forcing value), scripted IBM kills, sparse output with compactification at output.
   One action per module call; the step protocol is  timer -> release -> force -> output? -> move -> ibm  (C19).
   CacheMode tells where the per-particle forcing value lives between `force` and `move`:
     "state"  - in arrays that are compactified together with the particles (the repaired implementation)
     "forcing"- in the forcing object, untouched by compactification (the pinned implementation; refuted by TLC: C14)
   NpidMode tells how a warm start restores the identifier counter: "count" (number released so far, written with the
   particle variables) or "maxpid" (highest identifier present in the restart file; refuted by TLC: C08).
   Layout "sparse" compactifies at output and writes the living particles one after the other; "dense" never compactifies and
   writes the value of a living particle into the column of its identifier (the repaired implementation, D32);
   "dense_bypos" is the pinned implementation, which wrote the particle at list position i into column i (a `has_value`
   mask over the list): the column is the identifier only as long as the list holds every particle ever released - TLC
   refutes it after a warm start (the restored list holds the living particles only; C06 / C08) and with CompactMode
   "everystep" (a tidy-up that looks harmless, removing the dead after every step).                               *)
EXTENDS Integers, Sequences, FiniteSets
CONSTANTS W, NSTEPS, CacheMode, NpidMode, Layout, CompactMode

\* scenario sc = [rel : step -> sequence of levels released at that step, kill : set of <<step, pid>>, ops, numrec]
Vel(level) == IF level = 0 THEN 1 ELSE 0                               \* the forcing: surface layer flows, deep layer rests
InChannel(x) == x >= 1 /\ x <= W - 1
\* closed form of a particle's fate, from its own release data only (independence, C14)
SoloPos(rstep, level, step) == 1 + Vel(level) * (step - rstep)         \* released in cell 1

Alive(P) == SelectSeq(P, LAMBDA r : r.alive)
Pids(P) == { P[i].pid : i \in 1..Len(P) }

\* ---- module actions as state transformers on  m = [step, parts, npid, cache, hist, files, pc] ----------------
Timer(m) == [m EXCEPT !.step = @ + 1, !.pc = "release"]
Release(m, sc, skip) ==
   LET lv == IF skip \/ m.step \notin DOMAIN sc.rel THEN <<>> ELSE sc.rel[m.step]
       new == [i \in 1..Len(lv) |-> [pid |-> m.npid + i - 1, x |-> 1, level |-> lv[i], alive |-> TRUE, age |-> 0, born |-> m.step]]
   IN [m EXCEPT !.parts = @ \o new, !.npid = @ + Len(lv), !.pc = "force"]
\* forcing evaluated for the particle list of this moment: one value per particle *position in the list*
Force(m, next) == [m EXCEPT !.cache = [i \in 1..Len(m.parts) |-> [pid |-> m.parts[i].pid, u |-> Vel(m.parts[i].level)]], !.pc = next]
Due(m, sc, warm) == m.step >= (IF warm THEN 1 ELSE 0) /\ m.step % sc.ops = 0
\* output: compactify (sparse layout), then append the record; the cache follows the particles only in "state" mode
Output(m, sc, warm) ==
   IF ~Due(m, sc, warm) THEN [m EXCEPT !.pc = "move"]
   ELSE IF Layout \in {"dense", "dense_bypos"}
   THEN LET living == Alive(m.parts)
            cols == IF Layout = "dense" THEN [j \in 1..Len(living) |-> living[j].pid + 1]                      \* columns written = identifiers of the living
                    ELSE SelectSeq([i \in 1..Len(m.parts) |-> i], LAMBDA i : m.parts[i].alive)               \* pinned: list positions of the living
        IN [m EXCEPT !.pc = "move", !.hist = Append(@, [step |-> m.step, parts |-> living, npid |-> m.npid, cols |-> cols])]
   ELSE LET keep == { i \in 1..Len(m.parts) : m.parts[i].alive }
            P2 == Alive(m.parts)
            C2 == IF CacheMode = "state" THEN SelectSeq(m.cache, LAMBDA c : \E i \in keep : m.parts[i].pid = c.pid) ELSE m.cache
        IN [m EXCEPT !.parts = P2, !.cache = C2, !.pc = "move",
                     !.hist = Append(@, [step |-> m.step, parts |-> P2, npid |-> m.npid, cols |-> <<>>])]
\* move: particle i uses the cached value at *list position* i (what an array-based implementation does)
Move(m) ==
   LET mv(i) == LET p == m.parts[i]
                    u == IF i <= Len(m.cache) THEN m.cache[i].u ELSE 0
                    x2 == p.x + u
                IN IF ~p.alive THEN p ELSE IF ~InChannel(x2) THEN [p EXCEPT !.alive = FALSE] ELSE [p EXCEPT !.x = x2]
   IN [m EXCEPT !.parts = [i \in 1..Len(m.parts) |-> mv(i)], !.pc = "ibm"]
Ibm(m, sc) ==
   LET P1 == [i \in 1..Len(m.parts) |-> LET p == m.parts[i] IN
                 IF p.alive THEN [p EXCEPT !.age = @ + 1, !.alive = <<m.step, p.pid>> \notin sc.kill] ELSE p]
   IN [m EXCEPT !.parts = IF CompactMode = "everystep" THEN Alive(P1) ELSE P1, !.pc = "timer"]
\* one whole step of Model.update
StepAll(m, sc, warm) == Ibm(Move(Output(Force(Release(Timer(m), sc, FALSE), "output"), sc, warm)), sc)
\* Model.__init__ with warm start from the record `rec`: state from the record, catch-up cycle without output
Restore(rec, sc) ==
   LET np == IF NpidMode = "count" THEN rec.npid
             ELSE IF rec.parts = <<>> THEN 0 ELSE rec.parts[Len(rec.parts)].pid + 1
       m0 == [step |-> rec.step, parts |-> rec.parts, npid |-> np, cache |-> <<>>, hist |-> <<>>, pc |-> "release"]
   IN Ibm(Move(Force(Release(m0, sc, TRUE), "move")), sc)
Init0 == [step |-> -1, parts |-> <<>>, npid |-> 0, cache |-> <<>>, hist |-> <<>>, pc |-> "timer"]
=============================================================================
