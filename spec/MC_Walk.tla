------------------------------ MODULE MC_Walk ------------------------------
(* The random-walk algebra of Tracker.tla under an exact symmetric unit-variance distribution (C11).
   Every draw is +1 or -1 (in quarters: +4 / -4) with equal probability; ALL assignments of draws to the NS steps of a walk of
   NP particles are enumerated, so sums over the assignments are exact expectations times their number:
     Unbiased      E[dX] = E[dY] = E[dZ] = 0
     Variance      E[dX^2] = NS step^2 per direction (step = WalkH(s16, 1, dx): the variance 2 D dt of one step, added up linearly)
     IndepXY       E[dX dY] = 0, E[dX dZ] = 0          (directions use different draws)
     IndepPart     E[dX_p dX_q] = 0 for p # q          (particles use different draws)
   for both accepted assignments of the two horizontal blocks.  A specification that handed the same draw to two directions
   or two particles would fail IndepXY / IndepPart; one that consumed a draw twice in a step would fail Variance.      *)
EXTENDS Tracker, TLC, FiniteSetsExt
CONSTANTS NP, NS, S16, SZ16, DX, Shared        \* Shared = TRUE: control - both horizontal directions read the same block (refuted)
VARIABLE a
NDraw == 3 * NP                                             \* per step: two horizontal blocks and the depth block
One == { -4, 4 }                                            \* +-1 in quarters
StepDraws == [1..NDraw -> One]                              \* the draw vector of one step
Walks == [1..NS -> StepDraws]                               \* all assignments
\* final displacement of particle p under walk w (open water: no kill, no land)
DXof(w, p) == LET RECURSIVE F(_)
                  F(k) == IF k = 0 THEN 0 ELSE F(k - 1) + WalkH(S16, DrawU(w[k], NP, a, p), DX)
              IN F(NS)
DYof(w, p) == LET RECURSIVE F(_)
                  F(k) == IF k = 0 THEN 0 ELSE F(k - 1) + WalkH(S16, IF Shared THEN DrawU(w[k], NP, a, p) ELSE DrawV(w[k], NP, a, p), DX)
              IN F(NS)
DZof(w, p) == LET RECURSIVE F(_)
                  F(k) == IF k = 0 THEN 0 ELSE F(k - 1) + WalkV(SZ16, DrawW(w[k], 2 * NP, p))
              IN F(NS)
SumOver(f(_), T) == FoldSet(LAMBDA w, acc : acc + f(w), 0, T)          \* (CommunityModules, evaluated iteratively)
StepH == WalkH(S16, 4, DX)
StepV == WalkV(SZ16, 4)
Init == a \in {1, 2}
Spec == Init /\ [][UNCHANGED a]_a

Unbiased == \A p \in 1..NP : LET fx(w) == DXof(w, p)  fy(w) == DYof(w, p)  fz(w) == DZof(w, p)
                             IN SumOver(fx, Walks) = 0 /\ SumOver(fy, Walks) = 0 /\ SumOver(fz, Walks) = 0
Variance == \A p \in 1..NP : LET fx(w) == DXof(w, p) * DXof(w, p)  fy(w) == DYof(w, p) * DYof(w, p)  fz(w) == DZof(w, p) * DZof(w, p)
                             IN /\ SumOver(fx, Walks) = Cardinality(Walks) * NS * StepH * StepH
                                /\ SumOver(fy, Walks) = Cardinality(Walks) * NS * StepH * StepH
                                /\ SumOver(fz, Walks) = Cardinality(Walks) * NS * StepV * StepV
IndepXY == \A p \in 1..NP : LET fxy(w) == DXof(w, p) * DYof(w, p)  fxz(w) == DXof(w, p) * DZof(w, p)  fyz(w) == DYof(w, p) * DZof(w, p)
                            IN SumOver(fxy, Walks) = 0 /\ SumOver(fxz, Walks) = 0 /\ SumOver(fyz, Walks) = 0
IndepPart == \A p \in 1..NP, q \in 1..NP : p # q =>
                LET fx(w) == DXof(w, p) * DXof(w, q)  fxy(w) == DXof(w, p) * DYof(w, q)  fz(w) == DZof(w, p) * DZof(w, q)
                IN SumOver(fx, Walks) = 0 /\ SumOver(fxy, Walks) = 0 /\ SumOver(fz, Walks) = 0
=============================================================================
