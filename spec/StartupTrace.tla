---------------------------- MODULE StartupTrace ----------------------------
(* Fault enumeration for C20: every base scenario x every single fault is run through ladim.main.main; the run must
   stop with an error before the first step and write no output record exactly when Startup!Valid is false.   *)
EXTENDS Startup, TLC, Json, IOUtils
Tr == ndJsonDeserialize(IOEnv.TRACE_FILE)
VARIABLES l, tid, status, S
vars == <<l, tid, status, S>>
Ev == Tr[l]
Is(e) == l <= Len(Tr) /\ Tr[l].ev = e /\ l' = l + 1
Check(name, c) == c \/ (PrintT(<<"REJECT", tid, l, name>>) /\ FALSE)
All(t) == \A i \in DOMAIN t : t[i]
Verdict == IF tid > 0 /\ status = "ok" THEN PrintT(<<"ACCEPT", tid>>) ELSE TRUE
Mark(ok) == status' = IF ok THEN status ELSE "rej"
Init == l = 1 /\ tid = 0 /\ status = "ok" /\ S = [none |-> 0]
Setup == Is("setup") /\ Verdict /\ tid' = Ev.tid /\ status' = "ok" /\ S' = Ev
Eof == Is("eof") /\ Verdict /\ UNCHANGED <<tid, status, S>>
Outcome == /\ Is("outcome")
           /\ LET v == Valid(S.d) IN
              Mark(All(<<Check("setup.fault_is_what_it_says", (S.fault = "none") = v),
                         Check("startup.invalid_refused", ~v => Ev.refused),
                         Check("startup.valid_runs", v => ~Ev.refused /\ ~Ev.crashed),
                         Check("startup.refusal_before_first_step", Ev.refused => Ev.steps = 0),
                         Check("startup.no_record_written", ~v => Ev.records = 0)>>))
           /\ (IF ~Valid(S.d) THEN PrintT(<<"COUNT", "faults", 1>>) ELSE TRUE)
           /\ UNCHANGED <<tid, S>>
Next == Setup \/ Eof \/ Outcome
Spec == Init /\ [][Next]_vars
Accepted == TLCGet("stats").diameter - 1 = Len(Tr)
=============================================================================
