----------------------------- MODULE MC_Release -----------------------------
(* Exhaustive check (C04, C10): the operational schedule equals the declarative one for every small table,
   window, direction, discrete/continuous mode and frequency; nothing is released outside [start, stop);
   refusal happens exactly when the schedule is empty.  Tables are grown by actions in simulation order. *)
EXTENDS Release, TLC, Json
CONSTANTS TMAX, MAXROWS, MAXMULT, FREQS
VARIABLES c, tb, phase, step, idx, total
vars == <<c, tb, phase, step, idx, total>>

Cfgs == { x \in [start : 0..TMAX, stop : 0..TMAX, dt : {1}, rev : BOOLEAN, cont : BOOLEAN, freq : FREQS] :
            ValidClock(x) /\ x.start # x.stop /\ (~x.cont => x.freq = 1) }
Init == c \in Cfgs /\ tb = <<>> /\ phase = "build" /\ step = -1 /\ idx = 1 /\ total = 0
LastSim == IF tb = <<>> THEN 0 - 2 ELSE Sim(c, tb[Len(tb)].t)
\* tick-aligned file times in continuous mode (quantifier of C04: release times on the time grid)
Aligned(s) == IF ~c.cont \/ tb = <<>> THEN TRUE ELSE (s - Sim(c, tb[1].t)) % c.freq = 0
AddRow == /\ phase = "build" /\ Len(tb) < MAXROWS
          /\ \E s \in LastSim..(TMAX + 1), m \in 0..MAXMULT :
                /\ Aligned(s)
                /\ tb' = Append(tb, [t |-> IF c.rev THEN c.start - s ELSE c.start + s, mult |-> m, id |-> Len(tb) + 1])
          /\ UNCHANGED <<c, phase, step, idx, total>>
Start == /\ phase = "build" /\ tb # <<>>
         /\ phase' = IF OpTable(c, tb)[1] THEN "refused" ELSE "run"
         /\ UNCHANGED <<c, tb, step, idx, total>>
D == OpTable(c, tb)[2]
Run == /\ phase = "run" /\ step < Nsteps(c) - 1
       /\ step' = step + 1
       /\ LET r == OpUpdate(c, D, idx, step + 1) IN idx' = r[2] /\ total' = total + Len(Expand(r[1]))
       /\ UNCHANGED <<c, tb, phase>>
Next == AddRow \/ Start \/ Run
Spec == Init /\ [][Next]_vars

\* scenario emission for replay into the real releaser (GEN configuration): every (window, direction, mode, table) of the bound
EmitScenario == (phase \in {"run", "refused"} /\ step = -1) => PrintT(<<"SCN", ToJson([cfg |-> c, table |-> tb, refused |-> phase = "refused"])>>)
Ids(rs) == [i \in 1..Len(rs) |-> rs[i].id]
\* the release performed at the current step is the declared one (rows, order, multiplicity)
OpIsDecl == [][(phase = "run" /\ phase' = "run") =>
                 Ids(Expand(OpUpdate(c, D, idx, step')[1])) = Ids(Expand(DeclAt(c, tb, step')))]_vars
RefuseIffEmpty == (phase = "refused" => NoRowInWindow(c, tb)) /\ (phase = "run" => ~NoRowInWindow(c, tb))
\* at the end every row in the window has yielded exactly mult particles
RECURSIVE SumMult(_)
SumMult(rs) == IF rs = <<>> THEN 0 ELSE Head(rs).mult + SumMult(Tail(rs))
WindowRows == SelectSeq(tb, LAMBDA r : Sim(c, r.t) >= 0 /\ Sim(c, r.t) < Dur(c))
TotalLaw == (phase = "run" /\ step = Nsteps(c) - 1 /\ ~c.cont) => total = SumMult(WindowRows)
CursorInRange == phase = "run" => idx <= Len(OpGroups(D)) + 1
=============================================================================
