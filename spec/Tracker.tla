------------------------------- MODULE Tracker -------------------------------
(* One tracker step for one particle on the lattice (ladim/tracker.py, Tracker.update).  Exact integer version:
   horizontal positions in 1/QP cell, depths in 1/QZ m.  g = [i0, i1, j0, j1, mask, H]  (mask / H: rows j of the
   loaded rectangle, H in 1/QZ m).  The interval-semantics version used for free-running end-to-end traces is in
   LadimTrace; this one is used by the exhaustive model (MC_Tracker) and by the lattice conformance of C11 / C15. *)
EXTENDS Integers, Sequences, FiniteSets
CONSTANTS QP, QZ

Round(x) == (2 * x + QP) \div (2 * QP)                 \* nearest cell (ties upward; drivers avoid exact edges)
OnEdge(x) == (2 * x + QP) % (2 * QP) = 0
Loaded(g, i, j) == i >= g.i0 /\ i < g.i1 /\ j >= g.j0 /\ j < g.j1
Sea(g, i, j)  == Loaded(g, i, j) /\ g.mask[j - g.j0 + 1][i - g.i0 + 1] > 0
Depth(g, i, j) == g.H[j - g.j0 + 1][i - g.i0 + 1]
InGrid(g, x, y) == /\ 2 * x > (2 * g.i0 + 1) * QP /\ 2 * x < (2 * g.i1 - 3) * QP
                   /\ 2 * y > (2 * g.j0 + 1) * QP /\ 2 * y < (2 * g.j1 - 3) * QP
AtSea(g, x, y) == Sea(g, Round(x), Round(y))

\* horizontal part: p = [x, y, z, alive, active]; (dx, dy) displacement of this step in 1/QP cells
\* order as the implementation: out-of-grid kill, inactive restore, land cancel
MoveH(g, p, dx, dy) ==
   LET cx == p.x + dx   cy == p.y + dy
       out == ~InGrid(g, cx, cy)
       alive1  == p.alive /\ ~out
       active1 == p.active /\ ~out
       hold == ~active1 \/ ~AtSea(g, cx, cy)
   IN [p EXCEPT !.x = IF hold THEN p.x ELSE cx, !.y = IF hold THEN p.y ELSE cy, !.alive = alive1, !.active = active1]

\* random walk (C11): one fresh standard-normal draw xi (in quarters) per particle x direction x step; the displacement is
\* sigma xi dt / dx with sigma dt = sqrt(2 D dt) = s16 / 16 m, i.e. in 1/256 cell:  (s16 xi 4) / dx ; in depth (1/16 m): (sz16 xi) / 4.
\* The draws of one step arrive as one vector: the first block of n for one horizontal direction, the second for the other
\* (either assignment a = 1, 2 is accepted - the blocks are identically distributed), then n for the depth.
WalkH(s16, xi, d) == (s16 * xi * 4) \div d
WalkV(sz16, xi) == (sz16 * xi) \div 4
DrawU(draws, n, a, i) == IF a = 1 THEN draws[i] ELSE draws[n + i]
DrawV(draws, n, a, i) == IF a = 1 THEN draws[n + i] ELSE draws[i]
DrawW(draws, nh, i) == draws[nh + i]

\* vertical part: displacement dz (1/QZ m), reflecting surface and bottom of the cell occupied when the step began
Reflect(z, dz, h) == LET z1 == z + dz
                         z2 == IF z1 < 0 THEN 0 - z1 ELSE z1
                     IN IF z2 > h THEN 2 * h - z2 ELSE z2
MoveV(g, p, dz, on) == IF on THEN [p EXCEPT !.z = Reflect(p.z, dz, Depth(g, Round(p.x), Round(p.y)))] ELSE p

\* the C09 invariant for one particle
Safe(g, p) == p.alive => (InGrid(g, p.x, p.y) /\ AtSea(g, p.x, p.y))
=============================================================================
