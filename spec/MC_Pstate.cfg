CONSTANTS MAXP = 6
 DEPTH = 7
 GEN = FALSE
SPECIFICATION Spec
VIEW view
INVARIANT InvEqualLen
INVARIANT InvPidsIncreasing
INVARIANT InvPidGeIndex
INVARIANT InvBelowNpid
INVARIANT InvTagFollows
INVARIANT InvAgeFollows
INVARIANT InvGoneStayGone
PROPERTY NeverReused
PROPERTY CompactExact
PROPERTY SurvivorsKeep
PROPERTY MarkIsSnapshot
CHECK_DEADLOCK FALSE
