------------------------------- MODULE Vertical -------------------------------
(* Vertical grid (ladim/ROMS.py: z2s / z2s_kernel, sdepth).  Depths are integers in a scenario-chosen unit.
   A level column zr is a strictly increasing sequence of (negative) level depths, bottom first.     *)
EXTENDS Integers, Sequences, FiniteSets

\* level lookup for a particle at depth Z (positive down), zneg = -Z:
\* K = 1-based index of the UPPER level of the bracketing pair (K-1, K); weight an/ad on the lower level K-1
Z2S(zr, zneg) ==
   LET N   == Len(zr)
       cnt == Cardinality({ k \in 1..N : zr[k] < zneg })             \* searchsorted, side = left
   IN IF N = 1 THEN [K |-> 1, an |-> IF cnt = 1 THEN 0 ELSE 1, ad |-> 1]   \* a single level: both levels of the pair are that level
      ELSE IF cnt = N THEN [K |-> N, an |-> 0, ad |-> 1]              \* above the top level: held constant
      ELSE IF cnt = 0 THEN [K |-> 2, an |-> 1, ad |-> 1]             \* below the bottom level: held constant
      ELSE [K |-> cnt + 1, an |-> zr[cnt + 1] - zneg, ad |-> zr[cnt + 1] - zr[cnt]]
\* 1-based indices of the two levels of the pair (with a single level the lower one is the level itself)
Upper(r) == r.K
Lower(r) == IF r.K = 1 THEN 1 ELSE r.K - 1

Clamp(x, lo, hi) == IF x < lo THEN lo ELSE IF x > hi THEN hi ELSE x
\* the lookup identity of C12:  a z[K-1] + (1-a) z[K] = clamp(-Z)   (multiplied by ad)
LookupOK(zr, zneg) ==
   LET r == Z2S(zr, zneg) IN
   /\ Lower(r) >= 1 /\ Upper(r) <= Len(zr)                             \* both levels of the pair exist (C17)
   /\ r.an >= 0 /\ r.an <= r.ad /\ r.ad > 0                            \* weight in [0, 1]
   /\ r.an * zr[Lower(r)] + (r.ad - r.an) * zr[Upper(r)] = r.ad * Clamp(zneg, zr[1], zr[Len(zr)])

\* ---- rational s-level depths:  C = cn/cd stretching values, S = unstretched coordinate as rational ----------
\* rho levels: S_k = -1 + (k - 1/2)/N = (2k - 1 - 2N) / (2N) ;  w levels: S_k = -1 + k/N = (k - N)/N  (k = 0..N)
\* Vtransform 1:  z = hc (S - C) + C h      Vtransform 2:  z = h (hc S + C h) / (hc + h)
\* returned as <<numerator, denominator>> with a positive denominator
SRho(k, N) == <<2 * k - 1 - 2 * N, 2 * N>>
SW(k, N)   == <<k - N, N>>
SDepth(h, hc, cn, cd, S, vt) ==
   IF vt = 1 THEN <<hc * (S[1] * cd - cn * S[2]) + cn * h * S[2], S[2] * cd>>
   ELSE <<h * (hc * S[1] * cd + cn * h * S[2]), S[2] * cd * (hc + h)>>
RatLess(a, b) == a[1] * b[2] < b[1] * a[2]
RatLeq(a, b)  == a[1] * b[2] <= b[1] * a[2]
=============================================================================
