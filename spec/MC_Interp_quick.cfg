CONSTANTS IMAX = 6
 JMAX = 6
 Q = 4
 WI = 2
 WJ = 2
SPECIFICATION Spec
INVARIANT LocalIsGlobal
INVARIANT InBounds
INVARIANT OwnCellLoaded
INVARIANT MaskIsLandFaces
INVARIANT Convex
INVARIANT LinearExact
INVARIANT ValidInsideClipped
CHECK_DEADLOCK FALSE
