---------------------------- MODULE LadimTrace ----------------------------
(* Trace validation of complete LADiM runs (ladim.main.main with all eight modules replaced by recording
   plug-ins loaded by file path) against the composed specification:
     Clock (time), Release (schedule), step protocol timer -> release -> force -> output? -> move -> ibm (C19),
     snapshot identity between module calls, Runge-Kutta stage protocol (C01), move outcome kill / inactive /
     land-cancel / moved with interval semantics (C09), scripted IBM, output history = file contents (C06, C07),
     identity invariants on every snapshot and record (C05), warm start catch-up cycle (C08).
   Positions / velocities / depths are integers in units of 1/65536 (cell, m/s, m); snapshots taken between two
   module calls are compared exactly, values the spec recomputes from logged velocities within TOL quanta.
   Verdicts are total: a failing clause is printed, the spec re-synchronises on the observed state and goes on. *)
EXTENDS Release, Tableau, FileName, TLC, Json, IOUtils
Tr == ndJsonDeserialize(IOEnv.TRACE_FILE)
VARIABLES l, tid, status, S, pc, step, parts, npid, born, vels, hist, closed, dead, catch
vars == <<l, tid, status, S, pc, step, parts, npid, born, vels, hist, closed, dead, catch>>

Q == 65536
TOL == 4
NEG == -1073741824
Near(a, b) == Abs(a - b) <= TOL
Ev == Tr[l]
Is(e) == l <= Len(Tr) /\ Tr[l].ev = e /\ l' = l + 1
Check(name, c) == c \/ (PrintT(<<"REJECT", tid, l, name>>) /\ FALSE)
All(t) == \A i \in DOMAIN t : t[i]
\* a trace is complete when the run came to its end: output files read back, refused at start-up, or crashed
Verdict == IF tid = 0 THEN TRUE
           ELSE IF pc # "done" THEN PrintT(<<"REJECT", tid, l, "trace.incomplete">>)
           ELSE IF status = "ok" THEN PrintT(<<"ACCEPT", tid>>) ELSE TRUE
Mark(ok) == status' = IF ok THEN status ELSE "rej"
Get(s, i) == IF i >= 1 /\ i <= Len(s) THEN s[i] ELSE NEG
Min(a, b) == IF a < b THEN a ELSE b

\* ------------------------------------------------------------------ snapshots
Part(s, i) == [pid |-> s.pid[i], x |-> Get(s.x, i), y |-> Get(s.y, i), z |-> Get(s.z, i), alive |-> Get(s.alive, i) = TRUE,
               active |-> Get(s.active, i) = TRUE, farm |-> Get(s.farm, i), age |-> Get(s.age, i)]
AllParts(s)   == [i \in 1..Len(s.pid) |-> Part(s, i)]
AliveParts(s) == SelectSeq(AllParts(s), LAMBDA r : r.alive)
Pids(P) == { P[i].pid : i \in 1..Len(P) }
\* scalar forcing value held by the state for each living particle (empty when the run has no scalar forcing)
AliveTemps(s) == LET idx == SelectSeq([i \in 1..Len(s.pid) |-> i], LAMBDA i : Get(s.alive, i) = TRUE)
                 IN [k \in 1..Len(idx) |-> Get(s.temp, idx[k])]
\* identity invariants evaluated on every state snapshot (C05) and "the dead stay dead" (C09)
\* between two releases the number of identifiers handed out does not change
NpidInv(s) == <<Check("inv.npid_only_grows_at_release", s.npid = npid)>>
SnapInv(s) == <<Check("inv.arrays_equally_long", \A i \in 1..Len(s.lens) : s.lens[i] = Len(s.pid)),
                Check("inv.pids_increasing", \A i \in 1..(Len(s.pid) - 1) : s.pid[i] < s.pid[i + 1]),
                Check("inv.pid_ge_index", \A i \in 1..Len(s.pid) : s.pid[i] >= i - 1),
                Check("inv.pid_below_npid", \A i \in 1..Len(s.pid) : s.pid[i] < s.npid),
                Check("inv.dead_stay_dead", \A i \in 1..Len(s.pid) : (Get(s.alive, i) = TRUE) => s.pid[i] \notin dead)>>

\* ------------------------------------------------------------------ grid predicates (interval semantics)
G == S.grid
InGridSure(x, y)  == /\ x > (2 * G.i0 + 1) * (Q \div 2) + TOL /\ x < (2 * (G.i1 - 1) - 1) * (Q \div 2) - TOL
                     /\ y > (2 * G.j0 + 1) * (Q \div 2) + TOL /\ y < (2 * (G.j1 - 1) - 1) * (Q \div 2) - TOL
OutGridSure(x, y) == \/ x < (2 * G.i0 + 1) * (Q \div 2) - TOL \/ x > (2 * (G.i1 - 1) - 1) * (Q \div 2) + TOL
                     \/ y < (2 * G.j0 + 1) * (Q \div 2) - TOL \/ y > (2 * (G.j1 - 1) - 1) * (Q \div 2) + TOL
Cells(x) == LET c == (x + Q \div 2) \div Q   r == (x + Q \div 2) % Q
            IN IF r <= TOL THEN {c - 1, c} ELSE IF r >= Q - TOL THEN {c, c + 1} ELSE {c}
Loaded(i, j) == i >= G.i0 /\ i < G.i1 /\ j >= G.j0 /\ j < G.j1
SeaAt(i, j)  == Loaded(i, j) /\ G.mask[j - G.j0 + 1][i - G.i0 + 1] > 0
MaybeSea(x, y)  == \E i \in Cells(x), j \in Cells(y) : SeaAt(i, j)
MaybeLand(x, y) == \E i \in Cells(x), j \in Cells(y) : ~SeaAt(i, j)

\* grid spacing felt by a particle: that of its own cell when the step begins (tables of the loaded rectangle, metres);
\* within TOL of a cell edge either neighbour's value is acceptable
Metrics(x, y) == { <<G.dxt[j - G.j0 + 1][i - G.i0 + 1], G.dyt[j - G.j0 + 1][i - G.i0 + 1]>> :
                      <<i, j>> \in { c \in Cells(x) \X Cells(y) : Loaded(c[1], c[2]) } }

\* ------------------------------------------------------------------ advection (C01) and move outcome (C09)
Stages == NStages(S.adv)                                          \* tableaux: Tableau.tla (order conditions: MC_Tableau)
Clip(v, lo, hi) == IF v < lo THEN lo ELSE IF v > hi THEN hi ELSE v
ClipX(x) == Clip(x, G.i0 * Q + 655, (G.i1 - 1) * Q - 655)      \* xmin + 0.01, xmax - 0.01
ClipY(y) == Clip(y, G.j0 * Q + 655, (G.j1 - 1) * Q - 655)
NearClip(a, b) == Abs(a - b) <= TOL + 2
\* Butcher tableau: stage k is evaluated at X + c_k dt/dx U_{k-1} (clipped), at fractional time c_k
StageC2(k) == C2(S.adv, k)                                        \* 2 c_k
StageFits(pre, k, cur, prev) ==
   /\ cur.fracok /\ cur.frac2 = StageC2(k) /\ Len(cur.x) = Len(pre.pid) /\ Len(cur.y) = Len(pre.pid)
   /\ Len(cur.u) = Len(pre.pid) /\ Len(cur.v) = Len(pre.pid)
   /\ \A i \in 1..Len(pre.pid) : (Get(pre.alive, i) = TRUE) =>
        IF k = 1 THEN cur.x[i] = pre.x[i] /\ cur.y[i] = pre.y[i]
        ELSE \E d \in Metrics(pre.x[i], pre.y[i]) :
             /\ NearClip(cur.x[i], ClipX(pre.x[i] + (prev.u[i] * G.dt * StageC2(k)) \div (d[1] * 2)))
             /\ NearClip(cur.y[i], ClipY(pre.y[i] + (prev.v[i] * G.dt * StageC2(k)) \div (d[2] * 2)))
\* the scheme's stage evaluations must occur, in order, as a subsequence of the recorded velocity requests
RECURSIVE FindStages(_, _, _, _)
FindStages(pre, k, from, acc) ==          \* acc = indices matched so far
   IF k > Stages THEN acc
   ELSE LET prev == IF k = 1 THEN [u |-> <<>>, v |-> <<>>] ELSE vels[acc[k - 1]]
            cand == { n \in from..Len(vels) : StageFits(pre, k, vels[n], prev) }
        IN IF cand = {} THEN <<>>
           ELSE LET n == CHOOSE n \in cand : \A m \in cand : n <= m IN FindStages(pre, k + 1, n + 1, Append(acc, n))
RECURSIVE WSum(_, _, _, _)
WSum(idx, i, k, comp) == IF k = 0 THEN 0 ELSE W6(S.adv, k) * (IF comp = 1 THEN vels[idx[k]].u[i] ELSE vels[idx[k]].v[i]) + WSum(idx, i, k - 1, comp)
FinalUV(idx, i) == <<WSum(idx, i, Stages, 1) \div 6, WSum(idx, i, Stages, 2) \div 6>>          \* sum_k b_k U_k
\* which disjunct explains the move of one particle: "killed" | "inactive" | "cancelled" | "moved" | "none"  (C09)
\* (where exactly a moved particle ends is the separate clause move.displacement, C01)
Target(p, uv, d) == <<p.x + (uv[1] * G.dt) \div d[1], p.y + (uv[2] * G.dt) \div d[2]>>
Outcome1(p, uv, q, d) ==
   LET cx == Target(p, uv, d)[1]
       cy == Target(p, uv, d)[2]
       stay == q.x = p.x /\ q.y = p.y
       kept == q.alive = p.alive /\ q.active = p.active
   IN IF ~InGridSure(cx, cy) /\ ~q.alive /\ ~q.active /\ stay THEN "killed"
      ELSE IF ~kept THEN "none"
      ELSE IF ~p.active THEN (IF stay THEN "inactive" ELSE "none")
      ELSE IF OutGridSure(cx, cy) THEN "none"                              \* should have been killed
      ELSE IF MaybeLand(cx, cy) /\ stay THEN "cancelled"
      ELSE IF ~MaybeSea(cx, cy) THEN "none"                               \* moved onto land
      ELSE IF stay /\ ~(Near(cx, p.x) /\ Near(cy, p.y)) THEN "none"       \* held back for no reason
      ELSE "moved"
\* the outcome under the metric of the own cell (any admissible one that explains the move, if there is one)
GoodMetrics(p, uv, q) == { d \in Metrics(p.x, p.y) : Outcome1(p, uv, q, d) # "none" }
Outcome(p, uv, q) == IF GoodMetrics(p, uv, q) = {} THEN "none"
                     ELSE Outcome1(p, uv, q, CHOOSE d \in GoodMetrics(p, uv, q) : TRUE)
Displaced(p, uv, q) == \E d \in GoodMetrics(p, uv, q) : Outcome1(p, uv, q, d) = "moved" /\ Near(q.x, Target(p, uv, d)[1]) /\ Near(q.y, Target(p, uv, d)[2])

\* ------------------------------------------------------------------ protocol
Warm == S.warm
LastStep == IF Warm THEN Nsteps(S.clock) ELSE Nsteps(S.clock) - 1
Due == step >= (IF Warm THEN 1 ELSE 0) /\ step % S.out.ops = 0
RelTime(r, st) == IF S.cfg.cont THEN ClockTime(S.cfg, st) ELSE r.t

Init == /\ l = 1 /\ tid = 0 /\ status = "ok" /\ S = [none |-> 0] /\ pc = "idle" /\ step = -1 /\ parts = <<>> /\ npid = 0
        /\ born = <<>> /\ vels = <<>> /\ hist = <<>> /\ closed = <<>> /\ dead = {} /\ catch = FALSE
Setup == /\ Is("setup") /\ Verdict
         /\ tid' = Ev.tid /\ status' = "ok" /\ S' = Ev
         /\ pc' = (IF Ev.warm THEN "release" ELSE "timer")
         /\ step' = (IF Ev.warm THEN 0 ELSE -1)
         /\ catch' = Ev.warm
         /\ parts' = (IF Ev.warm THEN Ev.init.parts ELSE <<>>)
         /\ npid' = (IF Ev.warm THEN Ev.init.npid ELSE 0)
         /\ born' = (IF Ev.warm THEN Ev.init.born ELSE <<>>)
         /\ vels' = <<>> /\ hist' = <<>> /\ closed' = <<>> /\ dead' = {}
Eof == Is("eof") /\ Verdict /\ UNCHANGED <<tid, status, S, pc, step, parts, npid, born, vels, hist, closed, dead, catch>>

Timer == /\ Is("timer")
         /\ Mark(All(<<Check("timer.pc", pc = "timer"),
                       Check("timer.step", Ev.step = step + 1),
                       Check("timer.time", Ev.time = ClockTime(S.clock, Ev.step)),
                       Check("timer.within_run", Ev.step <= LastStep),
                       Check("startup.empty_release_refused", Warm \/ ~NoRowInWindow(S.cfg, S.table) \/ TailRelease(S.cfg, S.table))>>))
         /\ step' = Ev.step /\ pc' = "release"
         /\ UNCHANGED <<tid, S, parts, npid, born, vels, hist, closed, dead, catch>>

TRelease ==
   /\ Is("release")
   /\ LET rows == IF Warm /\ step = 0 THEN <<>> ELSE Expand(DeclAt(S.cfg, S.table, step))
          new  == [i \in 1..Len(rows) |-> [pid |-> npid + i - 1, x |-> rows[i].x, y |-> rows[i].y, z |-> rows[i].z,
                                            alive |-> TRUE, active |-> TRUE, farm |-> rows[i].id, age |-> 0]]
          got  == AliveParts(Ev.snap)
      IN /\ Mark(All(<<Check("release.pc", pc = "release"),
                       Check("release.step", Ev.step = step),
                       Check("release.count", Len(got) = Len(parts) + Len(rows)),
                       Check("release.parts", got = parts \o new),
                       Check("release.npid", Ev.snap.npid = npid + Len(rows))>> \o SnapInv(Ev.snap)))
         /\ parts' = got /\ npid' = Ev.snap.npid
         /\ born' = born \o [i \in 1..Len(rows) |-> [rt |-> RelTime(rows[i], step), src |-> rows[i].id]]
   /\ pc' = "force"
   /\ UNCHANGED <<tid, S, step, vels, hist, closed, dead, catch>>

Force == /\ Is("force")
         /\ LET n == Len(Ev.snap.pid) IN
            Mark(All(<<Check("force.pc", pc = "force"),
                       Check("force.step", Ev.step = step),
                       Check("force.sees_all_particles", AliveParts(Ev.snap) = parts),
                       Check("force.len", Len(Ev.u) = n /\ Len(Ev.v) = n),
                       Check("force.at_current_positions", Len(Ev.u0) = n /\ Ev.u = Ev.u0 /\ Ev.v = Ev.v0)>> \o SnapInv(Ev.snap) \o NpidInv(Ev.snap)))
         /\ pc' = IF catch THEN "move" ELSE "output"
         /\ UNCHANGED <<tid, S, step, parts, npid, born, vels, hist, closed, dead, catch>>

Output == /\ Is("output")
          /\ Mark(All(<<Check("output.pc", pc = "output"),
                        Check("output.step", Ev.step = step),
                        Check("output.snap", AliveParts(Ev.snap) = parts)>> \o SnapInv(Ev.snap) \o NpidInv(Ev.snap)))
          /\ hist' = IF Due THEN Append(hist, [step |-> step, recs |-> parts, npid |-> npid, temp |-> AliveTemps(Ev.snap)]) ELSE hist
          /\ pc' = "move"
          /\ UNCHANGED <<tid, S, step, parts, npid, born, vels, closed, dead, catch>>

Vel == /\ Is("vel")
       /\ Mark(Check("vel.pc", pc = "move"))          \* requested by the tracker, after the record was taken
       /\ vels' = Append(vels, Ev)
       /\ UNCHANGED <<tid, S, pc, step, parts, npid, born, hist, closed, dead, catch>>

\* (idx, the matched stage requests, is bound by a quantifier over a singleton set in Move: TLC then evaluates FindStages once per
\*  event; as a LET definition it was evaluated again for every particle that asked for its final velocity - quadratic cost)
MoveBody(idx) ==
      LET pre == Ev.pre   post == Ev.post
          n   == Len(pre.pid)
          shape == Len(post.pid) = n /\ Len(pre.x) = n /\ Len(post.x) = n /\ Len(post.y) = n /\ Len(post.alive) = n
          okst == Stages = 0 \/ idx # <<>>
          uv(i) == IF Stages = 0 THEN <<0, 0>> ELSE FinalUV(idx, i)
          A == { i \in 1..n : Get(pre.alive, i) = TRUE }
          oc == [i \in A |-> IF shape /\ okst THEN Outcome(Part(pre, i), uv(i), Part(post, i)) ELSE "none"]
      IN /\ Mark(All(<<Check("move.pc", pc = "move"),
                       Check("move.step", Ev.step = step),
                       Check("move.pre", AliveParts(pre) = parts),
                       Check("move.shape", shape),
                       Check("move.stages", okst),
                       Check("move.ids", shape => \A i \in 1..n : post.pid[i] = pre.pid[i] /\ Get(post.farm, i) = Get(pre.farm, i)
                                                                  /\ Get(post.age, i) = Get(pre.age, i)),
                       Check("move.z_unchanged", (shape /\ ~S.vert) => \A i \in A : post.z[i] = pre.z[i]),
                       Check("move.outcome", (shape /\ okst) => \A i \in A : oc[i] # "none"),
                       Check("move.displacement", (shape /\ okst) => \A i \in A : (oc[i] = "moved") => Displaced(Part(pre, i), uv(i), Part(post, i))),
                       Check("move.alive_in_water", shape => \A i \in 1..n : (Get(post.alive, i) = TRUE) =>
                                /\ post.x[i] # NEG /\ post.y[i] # NEG /\ post.z[i] # NEG
                                /\ ~OutGridSure(post.x[i], post.y[i]) /\ MaybeSea(post.x[i], post.y[i])),
                       Check("move.no_resurrection", shape => \A i \in 1..n : (Get(post.alive, i) = TRUE) => (Get(pre.alive, i) = TRUE))>>
                     \o SnapInv(post) \o NpidInv(post) \o NpidInv(pre)))
         /\ parts' = AliveParts(post)
         /\ dead' = dead \cup (Pids(parts) \ Pids(AliveParts(post)))
         /\ IF okst /\ shape /\ Stages > 0
            THEN PrintT(<<"COUNT", "moved", Cardinality({i \in A : oc[i] = "moved"})>>) /\ PrintT(<<"COUNT", "killed", Cardinality({i \in A : oc[i] = "killed"})>>)
                 /\ PrintT(<<"COUNT", "cancelled", Cardinality({i \in A : oc[i] = "cancelled"})>>) /\ PrintT(<<"COUNT", "inactive", Cardinality({i \in A : oc[i] = "inactive"})>>)
            ELSE TRUE
Move ==
   /\ Is("move")
   /\ LET pre == Ev.pre   n == Len(pre.pid)
          shape == Len(Ev.post.pid) = n /\ Len(pre.x) = n /\ Len(Ev.post.x) = n /\ Len(Ev.post.y) = n /\ Len(Ev.post.alive) = n
      IN \E idx \in { IF Stages > 0 /\ shape THEN FindStages(pre, 1, 1, <<>>) ELSE <<>> } : MoveBody(idx)
   /\ pc' = "ibm" /\ vels' = <<>>
   /\ UNCHANGED <<tid, S, step, npid, born, hist, closed, catch>>

Killed(p) == \E k \in 1..Len(S.kill) : S.kill[k][1] = step /\ S.kill[k][2] = p
KilledFarm(f) == \E k \in 1..Len(S.killfarm) : S.killfarm[k][1] = step /\ S.killfarm[k][2] = f       \* kills addressed by release row
Frozen(p) == \E k \in 1..Len(S.freeze) : S.freeze[k][1] = step /\ S.freeze[k][2] = p
Ibm == /\ Is("ibm")
       /\ LET pre == AliveParts(Ev.pre)   post == AliveParts(Ev.post)
              exp == SelectSeq([i \in 1..Len(parts) |-> [parts[i] EXCEPT !.age = @ + 1, !.alive = ~Killed(parts[i].pid) /\ ~KilledFarm(parts[i].farm), !.active = @ /\ ~Frozen(parts[i].pid)]], LAMBDA r : r.alive)
          IN /\ Mark(All(<<Check("ibm.pc", pc = "ibm"),
                           Check("ibm.step", Ev.step = step),
                           Check("ibm.module_given_by_path_runs", Ev.token = S.token),
                           Check("ibm.sees_moved_state", pre = parts),
                           Check("ibm.once_per_step", post = exp)>> \o SnapInv(Ev.post) \o NpidInv(Ev.post) \o NpidInv(Ev.pre)))
             /\ parts' = post
             /\ dead' = dead \cup (Pids(parts) \ Pids(post))
       /\ pc' = "timer" /\ catch' = FALSE
       /\ UNCHANGED <<tid, S, step, npid, born, vels, hist, closed>>

Close == /\ Is("close")
         /\ Mark(Check("close.after_last_step", pc = "timer" /\ step = LastStep))
         /\ closed' = Append(closed, Ev.mod)
         /\ UNCHANGED <<tid, S, pc, step, parts, npid, born, vels, hist, dead, catch>>

\* ------------------------------------------------------------------ output files
RECURSIVE Concat(_)
Concat(fs) == IF fs = <<>> THEN <<>> ELSE Head(fs).recs \o Concat(Tail(fs))
\* the file holds exactly the configured instance variables: a state variable that is not configured for output is absent
Dropped(v) == \E i \in 1..Len(S.out.drop) : S.out.drop[i] = v
RecOK(r, h) == /\ Len(r.pid) = Len(h.recs) /\ Len(r.x) = Len(r.pid) /\ Len(r.y) = Len(r.pid)
               /\ Len(r.z) = (IF Dropped("Z") THEN 0 ELSE Len(r.pid))
               /\ Len(r.age) = (IF Dropped("age") THEN 0 ELSE Len(r.pid))
               /\ Len(r.farm) = (IF Dropped("farm") THEN 0 ELSE Len(r.pid))
               /\ \A i \in 1..Len(r.pid) : /\ r.pid[i] = h.recs[i].pid /\ r.x[i] = h.recs[i].x /\ r.y[i] = h.recs[i].y
                                           /\ (Dropped("Z") \/ r.z[i] = h.recs[i].z) /\ (Dropped("age") \/ r.age[i] = h.recs[i].age)
                                           /\ (Dropped("farm") \/ r.farm[i] = h.recs[i].farm)
\* a time-typed instance variable (a per-row time stamp from the release file: row time + 3600 s x row id) is stored like the time
\* coordinate; the harness has already added the file's reference time
RowTime(id) == LET k == CHOOSE k \in 1..Len(S.table) : S.table[k].id = id IN S.table[k].t
StampOK(r) == ~S.out.stamp \/ Dropped("farm") \/
   (Len(r.stamp) = Len(r.pid) /\ \A i \in 1..Len(r.pid) : r.stamp[i] = RowTime(r.farm[i]) + 3600 * r.farm[i])
\* names and numbers as module FileName prescribes for the configured stem (a warm start is configured with the next name of the chain)
Proto == S.out.proto
\* scalar forcing in a record (C06: the value the state held; C19 / C03 / C02: valid at the record's time and place, i.e. the
\* value of the particle's own cell in the latest frame at or before the record's step - harness/world.scal encodes
\* frame, level and cell in the field value: 1000 f + 100 k + 10 j + i)
LatestFrame(st) == LET ok == { n \in 1..Len(S.scal.frames) : S.scal.frames[n] <= st } IN
                   IF ok = {} THEN -1 ELSE S.scal.fnum[CHOOSE n \in ok : \A m \in ok : S.scal.frames[m] <= S.scal.frames[n]]
CellOf(v) == { (v + (Q \div 2) - 1) \div Q, (v + (Q \div 2)) \div Q }         \* both neighbours on an exact tie
ScalStateOK(r, h) == ~S.scal.has \/ (Len(r.temp) = Len(h.temp) /\ \A i \in 1..Len(r.temp) : r.temp[i] = h.temp[i])
ScalValidOK(r, h) == ~S.scal.has \/
   (Len(r.temp) = Len(r.pid) /\ \A i \in 1..Len(r.pid) :
       \E k \in 0..(S.scal.N - 1), ci \in CellOf(r.x[i]), cj \in CellOf(r.y[i]) :
          r.temp[i] = 1000 * LatestFrame(h.step) + 100 * k + 10 * cj + ci)
NumberingOK(fs) == IF S.out.numrec = 0 THEN Len(fs) = 1 /\ fs[1].idx = NumberOf(Proto)
                   ELSE \A k \in 1..Len(fs) : fs[k].idx = StartNo(Proto) + k - 1
NamesOK(fs) == IF S.out.numrec = 0 THEN \A k \in 1..Len(fs) : fs[k].name = PlainName(Proto)
               ELSE \A k \in 1..Len(fs) : fs[k].name = SplitName(Proto, k - 1)
SizesOK(fs) == LET n == S.out.numrec IN
   IF hist = <<>> THEN \A k \in 1..Len(fs) : Len(fs[k].recs) = 0        \* (a warm start shorter than one output period)
   ELSE IF n = 0 THEN Len(fs) = 1
   ELSE /\ \A k \in 1..(Len(fs) - 1) : Len(fs[k].recs) = n
        /\ Len(fs) >= 1 /\ Len(fs[Len(fs)].recs) >= 1 /\ Len(fs[Len(fs)].recs) <= n
\* index into hist of the last record of file k
LastRecOf(fs, k) == LET RECURSIVE Sum(_)
                        Sum(j) == IF j = 0 THEN 0 ELSE Len(fs[j].recs) + Sum(j - 1)
                    IN Sum(k)
PvarsOK(fs) == \A k \in 1..Len(fs) :
   LET last == LastRecOf(fs, k)
       np == IF last >= 1 /\ last <= Len(hist) THEN hist[last].npid ELSE 0
   IN /\ Len(fs[k].pv_release_time) >= np /\ Len(fs[k].pv_src) >= np
      /\ fs[k].npart = np                                   \* the particle dimension holds exactly the particles released so far
      /\ \A p \in 1..np : fs[k].pv_release_time[p] = born[p].rt /\ fs[k].pv_src[p] = born[p].src
PidSetOf(r) == { r.pid[i] : i \in 1..Len(r.pid) }
FilesBody(fs, all) ==           \* `all` (the records of all files in order) is bound by a singleton quantifier in Files: evaluated once
      LET m == Min(Len(all), Len(hist)) IN
      Mark(All(<<Check("files.closed_once", \A md \in {"grid", "forcing", "release", "tracker", "ibm", "output"} :
                                                 Cardinality({ i \in 1..Len(closed) : closed[i] = md }) = 1),
                 Check("files.count", Len(all) = Len(hist)),
                 Check("files.sizes", SizesOK(fs)),
                 Check("files.numbering", NumberingOK(fs)),
                 Check("files.names", NamesOK(fs)),
                 Check("files.counts_sum", \A k \in 1..Len(fs) : fs[k].ninst = fs[k].sumcount),
                 Check("files.dense_fill", \A k \in 1..Len(fs) : fs[k].ghost = 0),   \* fill values before release and after death, in every variable
                 Check("files.reference", \A k \in 1..Len(fs) : fs[k].ref = Ref(S.clock)),
                 Check("files.time", \A k \in 1..m : all[k].time = ClockTime(S.clock, hist[k].step)),
                 Check("files.records", \A k \in 1..m : RecOK(all[k], hist[k])),
                 \* the configured attributes are in the file; "reference_time" in a units string is replaced by the reference time
                 Check("files.attributes", \A k \in 1..Len(fs) :
                          /\ (S.out.pvars => (fs[k].att.rt_ref = fs[k].ref /\ fs[k].att.rt_long /\ fs[k].att.src_long))
                          /\ (S.out.stamp => (fs[k].att.stamp_ref = fs[k].ref /\ fs[k].att.stamp_min))),
                 Check("files.time_typed_instance", \A k \in 1..Len(all) : StampOK(all[k])),
                 Check("files.scalar_is_state", \A k \in 1..m : ScalStateOK(all[k], hist[k])),
                 Check("files.scalar_valid_at_record", \A k \in 1..m : ScalValidOK(all[k], hist[k])),
                 Check("files.pvars", S.out.pvars => PvarsOK(fs)),
                 Check("files.pid_sorted", \A k \in 1..Len(all) : \A i \in 1..(Len(all[k].pid) - 1) : all[k].pid[i] < all[k].pid[i + 1]),
                 Check("files.pid_ge_index", \A k \in 1..Len(all) : \A i \in 1..Len(all[k].pid) : all[k].pid[i] >= i - 1),
                 \* an identifier that was in an earlier record and is in this one was in the record before this one, too
                 Check("files.dead_stay_dead", \A k \in 2..Len(all) :
                          (PidSetOf(all[k]) \cap UNION { PidSetOf(all[k0]) : k0 \in 1..(k - 1) }) \subseteq PidSetOf(all[k - 1]))>>))
Files ==
   /\ Is("files")
   /\ \E all \in { Concat(Ev.files) } : FilesBody(Ev.files, all)
   /\ pc' = "done"
   /\ PrintT(<<"COUNT", "records", Len(hist)>>)
   /\ UNCHANGED <<tid, S, step, parts, npid, born, vels, hist, closed, dead, catch>>

\* spec -> code replay: the composed abstract model (MC_Ladim) predicted which identifiers each record holds
Predicted == /\ Is("predicted")
             /\ Mark(Check("model.records_as_predicted", Ev.got = Ev.want))
             /\ UNCHANGED <<tid, S, pc, step, parts, npid, born, vels, hist, closed, dead, catch>>
Crash == /\ Is("crash") /\ Mark(Check("run.crashed", FALSE)) /\ pc' = "done"
         /\ UNCHANGED <<tid, S, step, parts, npid, born, vels, hist, closed, dead, catch>>

\* the run stopped with an error exit before the first step (start-up refusal, C20)
Refused == /\ Is("refused")
           /\ Mark(All(<<Check("startup.refusal_before_first_step", step = (IF Warm THEN 0 ELSE -1) /\ hist = <<>>),
                         Check("startup.refuses_only_invalid", NoRowInWindow(S.cfg, S.table))>>))
           /\ pc' = "done"
           /\ UNCHANGED <<tid, S, step, parts, npid, born, vels, hist, closed, dead, catch>>
Next == Predicted \/ Refused \/ Setup \/ Eof \/ Timer \/ TRelease \/ Force \/ Output \/ Vel \/ Move \/ Ibm \/ Close \/ Files \/ Crash
Spec == Init /\ [][Next]_vars
Accepted == TLCGet("stats").diameter - 1 = Len(Tr)
=============================================================================
