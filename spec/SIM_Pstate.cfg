CONSTANTS MAXP = 12
 DEPTH = 16
 GEN = TRUE
SPECIFICATION Spec
INVARIANT Emit
CHECK_DEADLOCK FALSE
