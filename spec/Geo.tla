------------------------------- MODULE Geo -------------------------------
(* 2-D sampling utility and longitude/latitude conversion (ladim/sample.py: sample2D, bilin_inv; ladim/ROMS.py:
   Grid.xy2ll, ll2xy).  F is a table of integers (rows j, columns i, 1-based sequences); positions are integers in
   units of 1/Q cell, 0-based grid coordinates.  Results are rationals <<numerator, denominator>>.        *)
EXTENDS Integers, Sequences, FiniteSets

NJ(F) == Len(F)
NI(F) == Len(F[1])
At(F, j, i) == F[j + 1][i + 1]
Outside(F, x, y, Q) == x < 0 \/ x >= (NI(F) - 1) * Q \/ y < 0 \/ y >= (NJ(F) - 1) * Q
\* the four corners with bilinear weights (sum Q*Q), each multiplied by its mask value (1 = valid, 0 = not)
Corners2D(F, M, masked, x, y, Q) ==
   LET i == x \div Q   p == x % Q   j == y \div Q   q == y % Q
       m(jj, ii) == IF masked THEN At(M, jj, ii) ELSE 1
   IN << [v |-> At(F, j, i),         w |-> (Q - p) * (Q - q) * m(j, i)],
         [v |-> At(F, j, i + 1),     w |-> p * (Q - q) * m(j, i + 1)],
         [v |-> At(F, j + 1, i),     w |-> (Q - p) * q * m(j + 1, i)],
         [v |-> At(F, j + 1, i + 1), w |-> p * q * m(j + 1, i + 1)] >>
\* declarative result: [kind |-> "outside" | "undef" | "value", num, den]
Sample2D(F, M, masked, x, y, Q) ==
   IF Outside(F, x, y, Q) THEN [kind |-> "outside", num |-> 0, den |-> 1]
   ELSE LET c == Corners2D(F, M, masked, x, y, Q)
            sw == c[1].w + c[2].w + c[3].w + c[4].w
        IN IF sw = 0 THEN [kind |-> "undef", num |-> 0, den |-> 1]
           ELSE [kind |-> "value", num |-> c[1].w * c[1].v + c[2].w * c[2].v + c[3].w * c[3].v + c[4].w * c[4].v, den |-> sw]
\* bilinear value of a table at a position given in GLOBAL grid coordinates when rows/columns j0.., i0.. were loaded
BilinGlobal(T, x, y, Q) == Sample2D(T, <<>>, FALSE, x, y, Q)
=============================================================================
