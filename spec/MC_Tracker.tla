----------------------------- MODULE MC_Tracker -----------------------------
(* Exhaustive check (C09, C15) of the tracker step on small grids: every mask on a window (islands, one-cell
   channels), every quarter-cell position, every displacement up to 1.5 cells, alive / dead, active / inactive;
   every depth, bottom depth and vertical displacement in small integers.                             *)
EXTENDS Tracker, TLC
CONSTANTS NI, NJ, DMAX, HMAX
VARIABLES g, p, phase
vars == <<g, p, phase>>
Bit(n, b) == (n \div (2 ^ b)) % 2
\* all sea except a 3 x 2 window at local (2..4, 2..3) coded by m
MaskOf(m) == [j \in 1..NJ |-> [i \in 1..NI |-> IF j \in {3, 4} /\ i \in {3, 4, 5} THEN Bit(m, 3 * (j - 3) + (i - 3)) ELSE 1]]
HOf(hh) == [j \in 1..NJ |-> [i \in 1..NI |-> hh]]
Init == /\ \E m \in 0..63, hh \in 1..HMAX : g = [i0 |-> 1, i1 |-> NI + 1, j0 |-> 1, j1 |-> NJ + 1, mask |-> MaskOf(m), H |-> HOf(hh * QZ)]
        /\ phase = "place" /\ p = [x |-> 0, y |-> 0, z |-> 0, alive |-> FALSE, active |-> FALSE]
Place == /\ phase = "place"
         /\ \E x \in (QP * 1)..(QP * NI), y \in (QP * 1)..(QP * NJ), al \in BOOLEAN, ac \in BOOLEAN, z \in 0..(HMAX * QZ) :
               LET q == [x |-> x, y |-> y, z |-> z, alive |-> al, active |-> ac] IN
               /\ ~OnEdge(x) /\ ~OnEdge(y)
               /\ InGrid(g, x, y) /\ AtSea(g, x, y)                  \* a state the model can be in (inductive hypothesis)
               /\ z <= Depth(g, Round(x), Round(y))
               /\ p' = q
         /\ phase' = "placed" /\ UNCHANGED g
Step == /\ phase = "placed"
        /\ \E dx \in (0 - DMAX)..DMAX, dy \in (0 - DMAX)..DMAX :      \* (every vertical displacement: action property InColumn)
              /\ ~OnEdge(p.x + dx) /\ ~OnEdge(p.y + dy)
              /\ p' = MoveV(g, MoveH(g, p, dx, dy), 0, TRUE)
        /\ phase' = "moved" /\ UNCHANGED g
Spec == Init /\ [][Place \/ Step]_vars

StaysInWater == phase = "moved" => Safe(g, p)                                              \* C09, inductive step
DeadStayDead == [][(phase = "placed" /\ ~p.alive) => ~p'.alive]_vars
InactiveNotMoved == [][(phase = "placed" /\ ~p.active) => (p'.x = p.x /\ p'.y = p.y)]_vars
KilledNotMoved == [][(phase = "placed" /\ p.alive /\ ~p'.alive) => (p'.x = p.x /\ p'.y = p.y /\ ~p'.active)]_vars
\* C15: depth within the water column of the cell occupied when the step began, whenever |dz| < h
InColumn == [][(phase = "placed") =>
                 LET h == Depth(g, Round(p.x), Round(p.y)) IN
                 \A dz \in (0 - h + 1)..(h - 1) : Reflect(p.z, dz, h) >= 0 /\ Reflect(p.z, dz, h) <= h]_vars
=============================================================================
