----------------------------- MODULE MC_Frames -----------------------------
(* Exhaustive check of the incremental forcing-in-time algorithm (C03, C10, C17) over every frame layout
   (gaps 1..4 incl. adjacent frames), every partition into files (incl. one frame per file), every start
   offset and run length, forward and reversed file traversal.  Layouts are grown by actions.       *)
EXTENDS Frames, TLC, Json
CONSTANTS LO, HI, MAXFR, MAXFILES
VARIABLES L, F, step, phase, rev
vars == <<L, F, step, phase, rev>>

Vals(n)  == [i \in 1..n |-> 24 * (i * i + 1)]          \* every interval has its own slope
SVals(n) == [i \in 1..n |-> 100 + i]
Mk(fs, file, fif, n) == [fs |-> fs, file |-> file, fif |-> fif, val |-> Vals(Len(fs)), sval |-> SVals(Len(fs)), nsteps |-> n]
\* frames per file, to know the last index when traversing backwards
Init == /\ phase = "build" /\ rev \in BOOLEAN
        /\ \E s \in (0 - LO)..0 : L = Mk(<<s>>, <<1>>, <<0>>, 0)
        /\ F = [cur |-> 0] /\ step = -1
\* forward: same file -> next index, new file -> index 0 ; reversed (files traversed backwards): same file -> the
\* frames of a file are met in descending index order, so indices are assigned afterwards by Renumber
AddFrame == /\ phase = "build" /\ Len(L.fs) < MAXFR
            /\ \E gap \in 1..4, nf \in {0, 1} :
                  /\ Last(L.fs) + gap <= HI
                  /\ Last(L.file) + nf <= MAXFILES
                  /\ L' = Mk(Append(L.fs, Last(L.fs) + gap), Append(L.file, Last(L.file) + nf),
                             Append(L.fif, IF nf = 1 THEN 0 ELSE Last(L.fif) + 1), 0)
            /\ UNCHANGED <<F, step, phase, rev>>
\* reversed run: within a file the frame indices descend in simulation order
CountIn(file, f) == Cardinality({ i \in 1..Len(file) : file[i] = f })
RevFif(file, fif) == [i \in 1..Len(fif) |-> CountIn(file, file[i]) - 1 - fif[i]]
Start == /\ phase = "build" /\ Len(L.fs) >= 2
         /\ \E n \in 1..HI :
               LET L2 == Mk(L.fs, L.file, IF rev THEN RevFif(L.file, L.fif) ELSE L.fif, n) IN
               /\ Covered(L2) /\ L' = L2 /\ F' = FInit(L2)
         /\ phase' = "run" /\ UNCHANGED <<step, rev>>
Run == /\ phase = "run" /\ step < L.nsteps - 1
       /\ step' = step + 1
       /\ F' = FUpdate(F, L, step + 1)
       /\ UNCHANGED <<L, phase, rev>>
Next == AddFrame \/ Start \/ Run
Spec == Init /\ [][Next]_vars

Running == phase = "run" /\ step >= 0
\* C03: the field in force is the linear interpolation, also a fraction of a step ahead
InterpOK == Running => /\ F.cur = Lerp2(L, 2 * step)
                       /\ Vel2(F, 1) = 2 * Lerp2(L, 2 * step + 1)
                       /\ Vel2(F, 2) = 2 * Lerp2(L, 2 * step + 2)
ScalOK == Running => F.scal = ScalAt(L, step)
\* every read hits the file that really contains the frame, at an index that exists there (C17: no read beyond a file)
ScalFileOK == phase = "run" => F.sread.file = L.file[IF step >= 0 THEN FloorIdx(L.fs, step) ELSE PreIdx(L)]
VelReadsOK == phase = "run" => \A r \in 1..Len(F.vreads) : /\ F.vreads[r].file = F.vreads[r].want
                                                            /\ F.vreads[r].fif >= 0 /\ F.vreads[r].fif < CountIn(L.file, F.vreads[r].file)
\* never reads beyond the layout; at most one velocity read per ordinary step
ReadBudget == phase = "run" => Len(F.vreads) <= (IF step = -1 THEN 2 ELSE 1)
\* layout emission for replay into the real forcing (GEN configuration): every small layout x partition x window x direction
EmitLayout == (phase = "run" /\ step = -1) => PrintT(<<"SCN", ToJson([fs |-> L.fs, file |-> L.file, rev |-> rev, nsteps |-> L.nsteps])>>)
OnlyStarts == phase = "build" \/ step = -1
=============================================================================
