------------------------------- MODULE Frames -------------------------------
(* Forcing in time (ladim/ROMS.py, Forcing.__init__ / update / velocity / _read_velocity / _read_field).
   A layout L (everything in *simulation order*, so forward and reversed runs are the same thing):
     fs   : strictly increasing sequence of frame steps (model step of every forcing frame)
     file : file id of each frame           fif : index of the frame inside its file
     val  : one representative velocity node value per frame (multiple of 24: thirds, quarters, halves exact)
     sval : one representative scalar value per frame
     nsteps : number of model steps of the run
   Declarative: Lerp2 (linear between the bracketing frames), ScalAt (latest frame at or before).
   Operational: FInit / FUpdate, the incremental algorithm shaped like the implementation
   (pre-roll to step -1, hand-over at a frame step, scalars, read-ahead, increment, file switch).      *)
EXTENDS Integers, Sequences, FiniteSets
CONSTANT SwitchRule

Last(s) == s[Len(s)]
IsFrame(fs, s) == \E i \in 1..Len(fs) : fs[i] = s
IdxOf(fs, s)   == CHOOSE i \in 1..Len(fs) : fs[i] = s
FloorIdx(fs, s) == CHOOSE i \in 1..Len(fs) : fs[i] <= s /\ (i = Len(fs) \/ fs[i + 1] > s)

\* index n of the bracket [fs[n], fs[n+1]] containing the half-step time s2/2 (the last bracket at the very end)
Bracket(fs, s2) == IF s2 >= 2 * Last(fs) THEN Len(fs) - 1 ELSE FloorIdx(fs, s2 \div 2)
\* linear interpolation at half-step time s2/2 between v0 at step a and v1 at step b (exact when 2(b-a) | (v1-v0)(s2-2a))
LerpVal(v0, v1, a, b, s2) == v0 + ((v1 - v0) * (s2 - 2 * a)) \div (2 * (b - a))
Lerp2(L, s2) == LET n == Bracket(L.fs, s2) IN LerpVal(L.val[n], L.val[n + 1], L.fs[n], L.fs[n + 1], s2)
ScalAt(L, s) == L.sval[FloorIdx(L.fs, s)]

\* the forcing covers the run (anything else must be refused at start-up, C20)
Covered(L) == L.fs[1] <= 0 /\ Last(L.fs) >= L.nsteps

\* ------------------------------------------------------------------------------- operational
\* reading frame n: the file is switched iff the frame lives in another file than the open one
\* (open = 0: nothing open yet).  SwitchRule "byfile" is the intended rule; "frame0" (switch when the frame is the
\* first of its file) is what the pinned implementation did - TLC refutes it for reversed runs (MC_Frames_frame0.cfg).
Switch(L, open, n) == IF open = 0 THEN TRUE ELSE IF SwitchRule = "frame0" THEN L.fif[n] = 0 ELSE open # L.file[n]
ReadVel(L, open, n) == [file |-> IF Switch(L, open, n) THEN L.file[n] ELSE open, want |-> L.file[n], fif |-> L.fif[n]]
\* scalars are read from whatever file is open (the implementation never switches for them)
ReadScal(L, open, n) == [file |-> open, fif |-> L.fif[n]]

PreIdx(L) == IF \E i \in 1..Len(L.fs) : L.fs[i] < 0
             THEN CHOOSE i \in 1..Len(L.fs) : L.fs[i] < 0 /\ (i = Len(L.fs) \/ L.fs[i + 1] >= 0)
             ELSE 1

FInit(L) ==                                        \* pre-roll to step -1
   LET p == PreIdx(L)   n == p + 1
       d == (L.val[n] - L.val[p]) \div (L.fs[n] - L.fs[p])
       r1 == ReadVel(L, 0, p)
       r2 == ReadVel(L, r1.file, n)
   IN IF L.fs[p] = 0                               \* (the first test is repeated for readability)
      THEN [cur |-> L.val[p], new |-> L.val[p], dU |-> 0, scal |-> L.sval[p],
            open |-> r1.file, sread |-> ReadScal(L, r1.file, p), vreads |-> <<r1>>]
      ELSE [cur |-> L.val[p] - (L.fs[p] + 1) * d, new |-> L.val[n], dU |-> d,
            scal |-> L.sval[p], open |-> r2.file,
            sread |-> ReadScal(L, r1.file, p),              \* scalars are read BEFORE the read-ahead may switch files
            vreads |-> <<r1, r2>>]

FUpdate(F, L, s) ==
   IF IsFrame(L.fs, s)
   THEN LET i == IdxOf(L.fs, s)   hasNext == i < Len(L.fs)          \* HandOver ; scalars ; ReadAhead
            r == ReadVel(L, F.open, i + 1)
        IN [cur  |-> F.new,
            scal |-> L.sval[i], sread |-> ReadScal(L, F.open, i),
            new  |-> IF hasNext THEN L.val[i + 1] ELSE F.new,
            dU   |-> IF hasNext THEN (L.val[i + 1] - F.new) \div (L.fs[i + 1] - L.fs[i]) ELSE 0,
            open |-> IF hasNext THEN r.file ELSE F.open,
            vreads |-> IF hasNext THEN <<r>> ELSE <<>>]
   ELSE [F EXCEPT !.cur = F.cur + F.dU, !.vreads = <<>>]            \* Increment

\* velocity a fraction (in halves: h2 in {0, 1, 2}) of a step ahead
Vel2(F, h2) == 2 * F.cur + h2 * F.dU                                 \* twice the value
=============================================================================
