CONSTANTS SwitchRule = "byfile"
 LO = 2
 HI = 9
 MAXFR = 6
 MAXFILES = 4
SPECIFICATION Spec
INVARIANT InterpOK
INVARIANT ScalOK
INVARIANT ScalFileOK
INVARIANT VelReadsOK
INVARIANT ReadBudget
CHECK_DEADLOCK FALSE
