import verif_rec as R
from ladim.ROMS import Grid as _Real


class Grid(_Real):
    def close(self):
        R.emit("close", mod="grid")
