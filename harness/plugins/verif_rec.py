"""Shared trace sink of the recording plug-ins (an ordinary importable module: the plug-ins themselves are loaded
by file path through LADiM's own `module:` mechanism and get private module names)."""
import numpy as np

EVENTS = []
Q = 1 << 16            # position quantum 1/65536 cell, velocity quantum 1/65536 m/s, depth quantum 1/65536 m
T0 = np.datetime64("2000-01-01T00:00:00")
EXTRA = {"ivars": []}  # names of extra integer instance variables to project (e.g. farm, age)


def reset(ivars=()):
    EVENTS.clear()
    EXTRA["ivars"] = list(ivars)


def q(a):
    a = np.asarray(a, dtype=float) * Q
    bad = ~np.isfinite(a) | (np.abs(a) > 2**30)
    return [int(v) for v in np.rint(np.where(bad, -(2**30), a))]


def secs(t):
    try:
        return int((np.datetime64(t, "s") - T0) / np.timedelta64(1, "s"))
    except Exception:
        return -(2**30)


def emit(ev, **kw):
    EVENTS.append(dict(ev=ev, **kw))


def snap(state):
    v = state.variables
    n = len(v["pid"])
    out = dict(pid=[int(p) for p in v["pid"]], x=q(v["X"]), y=q(v["Y"]), z=q(v["Z"]),
               alive=[bool(a) for a in v["alive"]], active=[bool(a) for a in v["active"]],
               lens=[int(len(v[k])) for k in sorted(state.instance_variables)], npid=int(state.npid))
    t = v.get("temp")          # scalar forcing variable of the end-to-end world (integer valued by construction)
    out["temp"] = [int(round(float(x))) if np.isfinite(float(x)) else -(2**30) for x in t] if t is not None and len(t) == n else []
    for name in EXTRA["ivars"]:
        a = v.get(name)
        out[name] = [int(round(float(x))) if np.isfinite(float(x)) else -(2**30) for x in a] if a is not None and len(a) == n else []
    return out
