import numpy as np
import verif_rec as R
from ladim.ROMS import Forcing as _Real


class Forcing(_Real):
    def update(self):
        super().update()
        st = self.modules["state"]
        # consistency probe (not a recorded request): the velocity at the particles' present positions
        try:
            u0, v0 = _Real.velocity(self, st.X, st.Y, st.Z, 0)
            u0, v0 = R.q(u0), R.q(v0)
        except Exception:
            u0, v0 = [], []
        R.emit("force", step=int(self.modules["time"].step), snap=R.snap(st),
               u=R.q(self.variables["u"]), v=R.q(self.variables["v"]), u0=u0, v0=v0)

    def velocity(self, X, Y, Z, fractional_step=0, method="bilinear"):
        out = super().velocity(X, Y, Z, fractional_step=fractional_step, method=method)
        R.emit("vel", x=R.q(X), y=R.q(Y), frac2=int(round(2 * float(fractional_step))),
               fracok=bool(abs(2 * float(fractional_step) - round(2 * float(fractional_step))) < 1e-9),
               u=R.q(out[0]), v=R.q(out[1]))
        return out

    def close(self):
        R.emit("close", mod="forcing")
        super().close()
