from ladim.state import State as _Real


class State(_Real):
    __slots__ = ()
