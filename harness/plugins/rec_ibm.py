"""Scripted IBM: ages every particle by one per call (so records show how often the IBM has seen a particle)
and kills the particles listed for the step.  The script is part of the scenario (chosen by the driver / by TLC)."""
import numpy as np
import verif_rec as R

TOKEN = -1   # the per-scenario copy of this file (written into the scenario directory) carries its own token



class IBM:
    def __init__(self, modules, kill=None, freeze=None, killfarm=None, compact=None, **kw):
        self.compact = set(int(k) for k in (compact or []))      # steps after which this IBM tidies the state up itself (public State.compactify)
        self.killfarm = {int(k): list(v) for k, v in (killfarm or {}).items()}
        self.m = modules
        self.kill = {int(k): list(v) for k, v in (kill or {}).items()}
        self.freeze = {int(k): list(v) for k, v in (freeze or {}).items()}

    def update(self):
        st = self.m["state"]
        step = int(self.m["time"].step)
        pre = R.snap(st)
        if "age" in st.variables:
            st["age"] = st["age"] + 1
        for pid in self.kill.get(step, []):
            st["alive"][st.pid == pid] = False
        for farm in self.killfarm.get(step, []):
            st["alive"][st["farm"] == farm] = False
        for pid in self.freeze.get(step, []):
            st["active"][st.pid == pid] = False
        R.emit("ibm", step=step, pre=pre, post=R.snap(st), token=TOKEN)
        if step in self.compact:
            st.compactify()

    def close(self):
        R.emit("close", mod="ibm", token=TOKEN)
