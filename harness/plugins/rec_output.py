import verif_rec as R
from ladim.out_netcdf import Output as _Real


class Output(_Real):
    def update(self):
        R.emit("output", step=int(self.modules["time"].step), snap=R.snap(self.modules["state"]))
        super().update()

    def close(self):
        R.emit("close", mod="output")
        super().close()
