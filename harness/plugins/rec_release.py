import verif_rec as R
from ladim.release import ParticleReleaser as _Real


class ParticleReleaser(_Real):
    def update(self):
        try:
            super().update()
        finally:
            R.emit("release", step=int(self.modules["time"].step), snap=R.snap(self.modules["state"]))

    def close(self):
        R.emit("close", mod="release")
