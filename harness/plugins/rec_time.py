import verif_rec as R
from ladim.timekeeper import TimeKeeper as _Real


class TimeKeeper(_Real):
    def update(self):
        super().update()
        R.emit("timer", step=int(self.step), time=R.secs(self.time))
