import verif_rec as R
from ladim.tracker import Tracker as _Real


class Tracker(_Real):
    def update(self):
        st = self.modules["state"]
        pre = R.snap(st)
        try:
            super().update()
        finally:
            R.emit("move", step=int(self.modules["time"].step), pre=pre, post=R.snap(st))

    def close(self):
        R.emit("close", mod="tracker")
