"""Unit-free integer encoding of observations (DESIGN section 3b/3c). No expected value is ever computed here."""
from __future__ import annotations

import numpy as np

T0 = np.datetime64("2000-01-01T00:00:00")
Q16 = 1 << 16


def iso(secs):
    return str(T0 + np.timedelta64(int(secs), "s"))


def secs_of(t):
    """datetime64 / ISO string -> integer seconds since T0, or None when it is no such thing."""
    try:
        d = (np.datetime64(t, "s") - T0) / np.timedelta64(1, "s")
        return int(d)
    except Exception:
        return None


def lat(x, den):
    """Encode x, expected to be a multiple of 1/den, as (int(round(x*den)), off_lattice_flag)."""
    a = np.asarray(x, dtype=float) * den
    if not np.all(np.isfinite(a)):
        return (np.zeros(a.shape, dtype=int).tolist() if a.ndim else 0), True
    n = np.rint(a)
    off = bool(np.any(np.abs(a - n) > 1e-6 * np.maximum(1.0, np.abs(n))))
    if np.any(np.abs(n) > 2**30):
        return (np.zeros(a.shape, dtype=int).tolist() if a.ndim else 0), True
    n = n.astype(np.int64)
    return (n.tolist() if n.ndim else int(n)), off


def q(x, quantum=Q16):
    """Quantise real-valued observations (interval semantics): list of ints, flag for non-finite."""
    a = np.asarray(x, dtype=float) * quantum
    bad = ~np.isfinite(a) | (np.abs(a) > 2**30)
    n = np.rint(np.where(bad, 0.0, a)).astype(np.int64)
    return n.tolist(), bool(np.any(bad))
