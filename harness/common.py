"""Shared plumbing of the checks: worker pool, result aggregation, evidence, known findings, replays."""
from __future__ import annotations

import json
import multiprocessing as mp
import os
import re
import shutil
import sys
import time
import traceback

from . import tlc

ROOT = os.path.dirname(os.path.dirname(os.path.abspath(__file__)))
REPO = os.environ.get("LADIM_REPO", "/repo")
GUARD = "BJORNAA_LADIM2_VERIF"
# runs against a scratch copy (mutant experiments) must not overwrite the committed evidence
# (VERIF_OUT: soundness runs with other seeds write their evidence and replays elsewhere, too)
OUT = os.environ.get("VERIF_OUT") or (
    ROOT if os.path.realpath(REPO) == "/repo" else os.path.join(os.environ.get("TMPDIR") or "/tmp", "lv_mutant_out"))


# ------------------------------------------------------------------------------------------------
# worker pool (fresh interpreters: environment variables such as NUMBA_BOUNDSCHECK must be set
# before numba is imported, and the code under test must be /repo's current working tree)
# ------------------------------------------------------------------------------------------------

def _worker_init(extra_env):
    os.environ.update(extra_env)
    os.environ["PYTHONDONTWRITEBYTECODE"] = "1"
    sys.dont_write_bytecode = True
    import logging
    import warnings
    warnings.filterwarnings("ignore")
    logging.disable(logging.CRITICAL)
    sys.path.insert(0, ROOT)
    sys.path.insert(0, os.path.join(ROOT, "harness", "plugins"))
    if REPO not in sys.path:
        sys.path.insert(0, REPO)
    if os.environ.get("VERIF_COVERAGE"):      # development aid (tools/coverage_of_checks.sh): which lines of ladim/ do the checks execute?
        import coverage
        global _COV
        _COV = coverage.Coverage(data_file=os.path.join(os.environ["VERIF_COVERAGE"], ".coverage"), data_suffix=True,
                                 include=[os.path.join(os.path.realpath(REPO), "ladim", "*")])
        _COV.start()
    import ladim
    assert os.path.realpath(ladim.__file__).startswith(os.path.realpath(REPO) + os.sep), ladim.__file__


_COV = None


def _call(arg):
    fn_mod, fn_name, sc = arg
    import importlib
    mod = importlib.import_module(fn_mod)
    try:
        return getattr(mod, fn_name)(sc)
    except BaseException as e:  # a driver bug, not an observation
        return {"__driver_error__": "".join(traceback.format_exception(type(e), e, e.__traceback__))[-2000:]}
    finally:
        if _COV is not None:
            _COV.save()


def pmap(fn_mod, fn_name, scenarios, *, procs=16, env=None, chunksize=4):
    """Run harness function `fn_mod.fn_name(scenario)` for every scenario in fresh worker processes.

    A worker that dies (e.g. segfault in a compiled kernel) is an observation attributed to the
    scenario: its result is {"__worker_died__": True}."""
    env = dict(env or {})
    env.setdefault(GUARD, "1")
    ctx = mp.get_context("spawn")
    n = len(scenarios)
    results = [None] * n
    procs = max(1, min(procs, n))
    args = [(fn_mod, fn_name, sc) for sc in scenarios]
    try:
        with ctx.Pool(procs, initializer=_worker_init, initargs=(env,)) as pool:
            handles = [pool.apply_async(_call, (a,)) for a in args]
            for i, h in enumerate(handles):
                try:
                    results[i] = h.get(timeout=600)
                except mp.TimeoutError:
                    results[i] = {"__worker_died__": True}
    except Exception as e:  # pool breakage
        raise tlc.MachineryError(f"worker pool failed: {e!r}") from e
    for r in results:
        if isinstance(r, dict) and "__driver_error__" in r:
            raise tlc.MachineryError("driver error:\n" + r["__driver_error__"])
    return results


# ------------------------------------------------------------------------------------------------
# known findings
# ------------------------------------------------------------------------------------------------

def load_findings():
    with open(os.path.join(ROOT, "known_findings.json")) as f:
        data = json.load(f)
    return data.get("open", []), data.get("fixed", [])


def finding_matches(fd, v):
    if fd["property"] != v["property"]:
        return False
    if "driver" in fd and fd["driver"] != v.get("driver"):
        return False
    if "clause" in fd and not re.search(fd["clause"], v.get("clause", "")):
        return False
    cls = (v.get("scenario") or {}).get("cls", {})
    for k, want in fd.get("where", {}).items():
        if cls.get(k) != want:
            return False
    return True


# ------------------------------------------------------------------------------------------------
# result aggregation for one property check
# ------------------------------------------------------------------------------------------------

class Report:
    def __init__(self, pid, tier, seed, level="model_checking"):
        self.pid, self.tier, self.seed, self.level = pid, tier, seed, level
        self.t0 = time.time()
        self.mc = []
        self.tv = []
        self.violations = []
        self.samples = []
        self.assumptions = []
        self.notes = {}
        self.nontrivial = 0
        self.rule = ""
        self.extra = {}

    # -- model checking
    def add_mc(self, name, r, note=""):
        self.mc.append(dict(model=name, distinct_states=r.distinct, states_generated=r.generated,
                            diameter=r.diameter, wall_s=round(r.wall, 2), note=note,
                            coverage={k: v[0] for k, v in r.coverage.items()} if r.coverage else {}))
        if r.violated:
            tail = r.out[r.out.find("Error:"):][:3000] if "Error:" in r.out else r.out[-1500:]
            self.violations.append(dict(property=self.pid, driver="mc:" + name, clause=",".join(r.violated),
                                        scenario={"cls": {"model": name}, "counterexample": tail}))

    def add_proof(self, theorem):
        """unbounded version of a model-checked law, discharged by the TLA+ proof system (spec/proofs/Proofs.tla)"""
        r = tlc.prove()
        self.extra.setdefault("proofs", []).append(dict(theorem=theorem, **r))
        if r.get("not_discharged"):      # supplementary: never decides, never silent (run.py setup is strict about the proofs)
            print(f"NOTE property={self.pid} proof {theorem}: {r['not_discharged']} (loaded machine? the proofs are re-run strictly by `run.py setup`)")

    # -- trace validation
    def add_tv(self, driver, module, scenarios, traces, verdicts, family=None, sample_every=None):
        """family: regex of clause names this property owns (None = all). Rejections by other clauses are
        counted as `foreign_rejections` and do not decide this property."""
        fam = re.compile(family) if family else None
        own = foreign = 0
        foreign_clauses = {}
        for tid, lst in sorted(verdicts.rejects.items()):
            mine = [(l, c) for l, c in lst if fam is None or fam.search(c) or c.startswith("tlc.evaluation-error")]
            if mine:
                own += 1
                sc = scenarios[tid - 1]
                self.violations.append(dict(property=self.pid, driver=driver, clause=mine[0][1],
                                            all_clauses=sorted({c for _, c in mine})[:12],
                                            event=mine[0][0], scenario=sc))
            else:
                foreign += 1
                for _, c in lst[:1]:
                    foreign_clauses[c] = foreign_clauses.get(c, 0) + 1
        self.tv.append(dict(driver=driver, spec=module, traces=len(traces), events=verdicts.events,
                            accepted=len(verdicts.accepted), rejected_own=own, foreign_rejections=foreign,
                            foreign_clauses=foreign_clauses, tlc_states=verdicts.states,
                            counts=verdicts.counts, wall_s=round(verdicts.wall, 2)))
        if traces:
            k = 0
            self.samples.append(dict(driver=driver, scenario=_short(scenarios[k]),
                                     trace_excerpt=[_short(e, 300) for e in traces[k][1:4]],
                                     verdict="accepted" if (k + 1) in verdicts.accepted else "rejected"))

    def require_counts(self, driver, minimum):
        """Vacuity control: disjunct counters printed by the trace spec must reach a minimum.  Evaluated in finish() and only
        when the run found no violation: on a tree that breaks the property the counters are naturally low, and the violations
        must be reported, not masked by a vacuity complaint."""
        self._required = getattr(self, "_required", []) + [(driver, dict(minimum))]

    def _check_required(self):
        for driver, minimum in getattr(self, "_required", []):
            tot = {}
            for t in self.tv:
                if t["driver"] == driver:
                    for k, v in t["counts"].items():
                        tot[k] = tot.get(k, 0) + v
            for k, m in minimum.items():
                if tot.get(k, 0) < m:
                    raise tlc.MachineryError(f"vacuous run: {driver} counter {k} = {tot.get(k, 0)} < {m}")

    # -- final
    def finish(self):
        open_f, _fixed = load_findings()
        out_lines, fresh, known = [], [], {}
        for v in self.violations:
            hit = next((fd for fd in open_f if finding_matches(fd, v)), None)
            if hit:
                known.setdefault(hit["id"], [hit, 0])[1] += 1
            else:
                fresh.append(v)
        for fid, (fd, n) in known.items():
            out_lines.append(f"KNOWN-FINDING: property={self.pid} {fid}: {fd['text']} ({n} scenario(s) this run)")
        rdir = os.path.join(OUT, "replays", self.pid)
        shutil.rmtree(rdir, ignore_errors=True)
        if fresh:
            os.makedirs(rdir, exist_ok=True)
        seen = {}
        for v in fresh:
            key = (v["driver"], v["clause"])
            seen[key] = seen.get(key, 0) + 1
            if seen[key] > 3:   # at most three replay files per (driver, clause)
                continue
            path = os.path.join(rdir, f"{v['driver'].replace(':', '_')}-{re.sub(r'[^A-Za-z0-9_.-]', '_', v['clause'])[:60]}-{seen[key]}.json")
            with open(path, "w") as f:
                json.dump(v, f, indent=1, default=str)
            out_lines.append(f"VIOLATION property={self.pid} replay={path}")
            out_lines.append(f"  driver={v['driver']} clause={v['clause']} scenario={json.dumps(_short(v['scenario'], 400), default=str)}")
        if not fresh:
            self._check_required()
        self._write_evidence(len(fresh), {k: n for k, (_, n) in known.items()})
        for t in self.tv:       # rejections owned by other properties' checks do not decide this one, but are never silent
            if t.get("foreign_rejections"):
                out_lines.append(f"NOTE property={self.pid} driver={t['driver']} foreign_rejections={t['foreign_rejections']} "
                                 f"(clauses of other properties: {json.dumps(t.get('foreign_clauses', {}))})")
        for ln in out_lines:
            print(ln)
        states = sum(m["distinct_states"] for m in self.mc) + sum(t["tlc_states"] for t in self.tv)
        ntr = sum(t["traces"] for t in self.tv)
        print(f"{self.pid} [{self.tier}] {'FAILED' if fresh else 'ok'}: mc_models={len(self.mc)} states={states} "
              f"traces_validated={ntr} violations={len(fresh)} known={sum(n for _, n in known.values())} "
              f"wall={time.time() - self.t0:.1f}s")
        return 1 if fresh else 0

    def _write_evidence(self, nviol, known):
        states = sum(m["distinct_states"] for m in self.mc) + sum(t["tlc_states"] for t in self.tv)
        trans = sum(m["states_generated"] for m in self.mc) + sum(t["events"] for t in self.tv)
        ntr = sum(t["traces"] for t in self.tv)
        cov = dict(states=max(states, 0), transitions=max(trans, 0), traces_validated_against_impl=ntr,
                   samples=self.samples[:6] or [{"note": "model checking only"}],
                   evaluations=ntr + len(self.mc), distinct_nontrivial=self.nontrivial, rule=self.rule,
                   model_checks=self.mc, trace_validation=self.tv, known_findings_hit=known,
                   explanation=self.notes.get("explanation", ""), **self.extra)
        if self.level in ("exploration", "fault_enumeration"):
            cov["evaluations"] = max(cov["evaluations"], 1)
        ev = dict(property_id=self.pid, tier=self.tier, seed=self.seed, level=self.level, coverage=cov,
                  assumptions=self.assumptions, wall_s=round(time.time() - self.t0, 2), violations=nviol)
        os.makedirs(os.path.join(OUT, "evidence"), exist_ok=True)
        with open(os.path.join(OUT, "evidence", f"{self.pid}.json"), "w") as f:
            json.dump(ev, f, indent=1, default=str)


def _short(x, lim=600):
    s = json.dumps(x, default=str)
    if len(s) <= lim:
        return x
    return {"truncated": s[:lim] + " ..."}
