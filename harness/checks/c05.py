"""C05 - particle identity.  MC: MC_Pstate.  RP: every behaviour TLC generates is replayed into the real State.
TV: random long operation histories recorded from the real State, validated by PstateTrace."""
from __future__ import annotations

import json
import random
import re

from .. import tlc
from ..common import Report, pmap

FAMILY = r"^(append|kill|compactify|incage|copyage|bump|inv)\.|^replay\."


def _mk_state():
    from ladim.state import State
    return State(instance_variables=dict(tag=int, age=int, mark=int, w=float), particle_variables=dict(ptag=int, born="time"),
                 default_values=dict(age=0, mark=0, w=1.5))


def _proj(s):
    v = s.variables
    names = sorted(s.instance_variables)
    return dict(pid=[int(x) for x in v["pid"]], alive=[bool(x) for x in v["alive"]], tag=[int(x) for x in v["tag"]],
                age=[int(x) for x in v["age"]], mark=[int(x) for x in v["mark"]], ptag=[int(x) for x in v["ptag"]], npid=int(s.npid),
                lens=[int(len(v[n])) for n in names] + [int(len(s))])


def _apply(s, op, rng=None):
    """Apply one abstract operation to the real State, the way client code (release, IBM, output) does."""
    import numpy as np
    o = op["op"]
    if o == "append":
        k = op["k"]
        first = int(s.npid)
        tags = [100 + first + i for i in range(k)]
        kw = dict(X=[1.0 + i for i in range(k)] if k > 1 or op.get("mode") == "array" else 1.0, Y=2.0, Z=5.0,
                  tag=np.array(tags), ptag=tags, born=np.datetime64("2000-01-01T00:00:00"))
        mode = op.get("mode", "array")
        if mode == "scalar":
            kw["age"] = 7
        elif mode == "array":
            kw["age"] = [10 + i + 1 for i in range(k)]
        elif mode == "given":
            kw["age"] = op["ages"]
        s.append(**kw)
    elif o == "kill":
        s["alive"][op["i"]] = False
    elif o == "killmany":
        s["alive"][np.array(op["is"], dtype=int)] = False
    elif o == "compactify":
        s.compactify()
    elif o == "incage":
        s["age"] = s["age"] + 1
    elif o == "copyage":
        s["mark"] = s["age"]                # one variable assigned from another ...
    elif o == "bump":
        s["age"][op["i"]] += 1              # ... and the source changed in place afterwards
    else:
        raise ValueError(o)


def replay_behaviours(sc):
    """Spec -> code: step TLC-generated behaviours through a real State; compare after every operation.
    Returns a pseudo trace: setup + one 'beh' summary (mismatch info) so that verdict plumbing is shared."""
    bad = []
    for bi, hist in enumerate(sc["behaviours"]):
        s = _mk_state()
        for k, op in enumerate(hist):
            try:
                _apply(s, op)
                got = _proj(s)
            except Exception as e:
                bad.append(dict(beh=bi, at=k, op=op, error=repr(e)[:200]))
                break
            post = op["post"]
            want = dict(pid=post["iv"]["pid"], alive=post["iv"]["alive"], tag=post["iv"]["tag"], age=post["iv"]["age"], mark=post["iv"]["mark"],
                        ptag=post["pv"]["ptag"], npid=post["npid"])
            if any(got[f] != want[f] for f in want) or any(x != len(got["pid"]) for x in got["lens"]):
                bad.append(dict(beh=bi, at=k, ops=[{a: b for a, b in o.items() if a != "post"} for o in hist[:k + 1]],
                                got=got, want=want))
                break
    return dict(n=len(sc["behaviours"]), bad=bad[:5], nbad=len(bad))


def random_history(sc):
    """Code -> spec: a random long history on the real State, recorded for PstateTrace."""
    rng = random.Random(sc["seed"])
    s = _mk_state()
    ev = [dict(ev="setup")]
    big = sc.get("big", False)
    for it in range(sc["len"]):
        n = len(s)
        r = rng.random()
        if n == 0 or r < 0.3:
            k = rng.choice([1, 1, 2, 3, 5]) if not (big and (it == 0 or rng.random() < 0.3)) else rng.randrange(17, 45)
            mode = rng.choice(["default", "scalar", "given"])
            ages = [0] * k if mode == "default" else [7] * k if mode == "scalar" else [rng.randrange(0, 50) for _ in range(k)]
            op = dict(op="append", k=k, mode=mode, ages=ages)
            e = dict(ev="append", k=k, ages=ages)
        elif r < 0.6:
            i = rng.randrange(n)
            op = dict(op="kill", i=i)
            e = dict(ev="kill", i=i)
        elif r < 0.75:
            op = dict(op="compactify")
            e = dict(ev="compactify")
        elif r < 0.83:
            op = dict(op="copyage")
            e = dict(ev="copyage")
        elif r < 0.9:
            i = rng.randrange(n)
            op = dict(op="bump", i=i)
            e = dict(ev="bump", i=i)
        else:
            op = dict(op="incage")
            e = dict(ev="incage")
        _apply(s, op)
        e["post"] = _proj(s)
        ev.append(e)
    return ev


def bulk_history(sc):
    """Code -> spec at scale: hundreds to thousands of particles appended and killed at once (block sizes, integer widths, re-allocation)"""
    rng = random.Random(sc["seed"])
    s = _mk_state()
    ev = [dict(ev="setup")]
    for it in range(sc["len"]):
        n = len(s)
        r = rng.random()
        if n == 0 or r < 0.3:
            k = rng.choice([257, 300, 520, 900, 1100]) if (it == 0 or rng.random() < 0.6) else rng.randrange(1, 40)
            mode = rng.choice(["default", "scalar", "given"])
            ages = [0] * k if mode == "default" else [7] * k if mode == "scalar" else [rng.randrange(0, 50) for _ in range(k)]
            op, e = dict(op="append", k=k, mode=mode, ages=ages), dict(ev="append", k=k, ages=ages)
        elif r < 0.55:
            idx = sorted(rng.sample(range(n), max(1, int(n * rng.choice([0.02, 0.3, 0.6, 1.0])))))
            op, e = dict(op="killmany", **{"is": idx}), dict(ev="killmany", **{"is": idx})
        elif r < 0.75:
            op, e = dict(op="compactify"), dict(ev="compactify")
        elif r < 0.83:
            op, e = dict(op="copyage"), dict(ev="copyage")
        elif r < 0.9:
            i = rng.randrange(n)
            op, e = dict(op="bump", i=i), dict(ev="bump", i=i)
        else:
            op, e = dict(op="incage"), dict(ev="incage")
        _apply(s, op)
        e["post"] = _proj(s)
        ev.append(e)
    return ev


FAMILY_E = r"^inv\.(arrays_equally_long|pid|npid)|^files\.pid_(sorted|ge_index)|^move\.ids|^release\.(pids|npid)|^run\.crashed"
DRIVERS = {"e2e-identity": ("harness.e2e", "run_e2e", "LadimTrace", FAMILY_E),
           "history": ("harness.checks.c05", "random_history", "PstateTrace", FAMILY),
           "bulk-history": ("harness.checks.c05", "bulk_history", "PstateTrace", FAMILY)}


def run(tier, seed):
    rep = Report("C05", tier, seed)
    thorough = tier == "thorough"
    rep.add_mc("MC_Pstate", tlc.model_check("MC_Pstate", "MC_Pstate.cfg" if thorough else "MC_Pstate_quick.cfg",
                                            must_take=["DoAppend", "DoKill", "DoCompactify", "DoIncAge", "DoCopyAge", "DoBump"]))
    # ---- spec -> code: behaviours generated by TLC (exhaustive to a depth, simulated beyond)
    gen = tlc.run_tlc("MC_Pstate", "GEN_Pstate.cfg" if thorough else "GEN_Pstate_quick.cfg", workers=8)
    if gen.error or gen.violated:
        raise tlc.MachineryError("GEN_Pstate failed: " + (gen.error or str(gen.violated)))
    behs = [json.loads(json.loads(m)) for m in re.findall(r'<<"BEH", ("(?:[^"\\]|\\.)*")>>', gen.out)]
    sim = tlc.run_tlc("MC_Pstate", "SIM_Pstate.cfg", workers=1, simulate=f"num={3000 if thorough else 600}", depth=16,
                      extra=["-seed", str(seed)])
    if sim.error or sim.violated:
        raise tlc.MachineryError("SIM_Pstate failed: " + (sim.error or str(sim.violated)))
    sims = [json.loads(json.loads(m)) for m in re.findall(r'<<"BEH", ("(?:[^"\\]|\\.)*")>>', sim.out)]
    if len(behs) < 1000 or len(sims) < 100:
        raise tlc.MachineryError(f"too few generated behaviours: {len(behs)} + {len(sims)}")
    allb = behs + sims
    chunks = [dict(behaviours=allb[i:i + 500]) for i in range(0, len(allb), 500)]
    res = pmap("harness.checks.c05", "replay_behaviours", chunks)
    nbad = 0
    for ch, r in zip(chunks, res):
        if isinstance(r, dict) and r.get("__worker_died__"):
            raise tlc.MachineryError("replay worker died")
        nbad += r["nbad"]
        for b in r["bad"][:2]:
            rep.violations.append(dict(property="C05", driver="replay", clause="replay.state_mismatch",
                                       scenario=dict(cls={}, **b)))
    rep.mc.append(dict(model="GEN_Pstate(behaviours for replay)", distinct_states=gen.distinct, states_generated=gen.generated,
                       diameter=gen.diameter, wall_s=round(gen.wall + sim.wall, 2),
                       note=f"{len(behs)} exhaustive behaviours + {len(sims)} simulated (depth 16) replayed into ladim.state.State; mismatches: {nbad}", coverage={}))
    rep.extra["behaviours_replayed_into_impl"] = len(allb)
    rep.samples.append(dict(driver="replay", behaviour=[{a: b for a, b in o.items() if a != "post"} for o in allb[len(allb) // 2]],
                            final_state=allb[len(allb) // 2][-1]["post"]))
    # ---- code -> spec: long random histories
    scs = [dict(seed=seed * 1000 + i, len=rng_len, big=(i % 3 == 0), cls=dict(big=(i % 3 == 0))) for i, rng_len in enumerate([40] * (400 if thorough else 120))]
    traces = pmap("harness.checks.c05", "random_history", scs)
    rep.add_tv("history", "PstateTrace", scs, traces, tlc.validate_traces("PstateTrace", traces), family=FAMILY)
    # identity through complete runs: every snapshot any module sees (release, forcing, output, tracker, IBM) and every output record
    from ..e2e import base_scenario, directed
    re_ = random.Random(seed + 13)
    es = [directed(re_, "deaths") if k % 3 else base_scenario(re_) for k in range(300 if thorough else 90)]
    et = pmap("harness.e2e", "run_e2e", es)
    rep.add_tv("e2e-identity", "LadimTrace", es, et, tlc.validate_traces("LadimTrace", et, batch_events=1500), family=FAMILY_E)
    bs = [dict(seed=seed * 77 + i, len=14, cls=dict(bulk=True)) for i in range(40 if thorough else 10)]
    bt = pmap("harness.checks.c05", "bulk_history", bs)
    rep.add_tv("bulk-history", "PstateTrace", bs, bt, tlc.validate_traces("PstateTrace", bt, batch_events=60, timeout=1800), family=FAMILY)
    rep.nontrivial = len({json.dumps([{a: b for a, b in o.items() if a != "post"} for o in h]) for h in allb
                          if any(o["op"] == "compactify" for o in h) and any(o["op"] == "kill" for o in h)})
    rep.rule = ("behaviours = operation sequences over append(1-2; defaulted/scalar/array)/kill/compactify/item update generated by TLC "
                "(all up to the GEN depth, simulated to depth 16); random histories recorded from the real State, ten of them with 257-1100 particles appended "
                "and up to all of them killed at once; complete runs (scripted deaths, freezes, continuous release) with the identity invariants evaluated "
                "on every snapshot a module sees and on every output record; non-trivial = distinct sequences containing a kill and a compactify")
    rep.assumptions = ["abstract operations are mapped to State calls the way LADiM's own modules use it (append(**arrays), "
                       "state['alive'][i] = False, compactify(), state[var] = array)"]
    return rep
