"""C03 - forcing in time.  MC: MC_Frames.  TV: ForceTrace on the real TimeKeeper + Grid + Forcing for generated
frame layouts / file partitions / start offsets / directions (space-uniform fields: only the time logic matters)."""
from __future__ import annotations

import random

from .. import tlc
from ..common import Report, pmap
from ..forcedrv import time_scenario

FAMILY = r"^(obs\.|run\.crashed|setup\.valid)"
DRIVERS = {"force-time": ("harness.forcedrv", "force_trace", "ForceTrace", FAMILY)}


def run(tier, seed):
    rep = Report("C03", tier, seed)
    rep.add_proof("LerpEndpointsAll")
    rep.add_mc("MC_Frames", tlc.model_check("MC_Frames", "MC_Frames.cfg" if tier == "thorough" else "MC_Frames_quick.cfg",
                                            must_take=["AddFrame", "Start", "Run"]))
    rep.add_mc("MC_Frames_frame0(control)", tlc.expect_refuted("MC_Frames", "MC_Frames_frame0.cfg", "VelReadsOK"),
               note="control: switching files on frame index 0 (pinned design) is refuted for reversed traversal")
    rng = random.Random(seed)
    scs = [time_scenario(rng) for _ in range(6000 if tier == "thorough" else 1200)]
    traces = pmap("harness.forcedrv", "force_trace", scs)
    rep.add_tv("force-time", "ForceTrace", scs, traces, tlc.validate_traces("ForceTrace", traces), family=FAMILY)
    rep.nontrivial = len({repr((s["ftimes"], s["cuts"], s["start"], s["stop"])) for s in scs if s["cls"]["handovers"] > 0})
    rep.rule = ("random frame layouts (2-6 frames, gaps 1-4 steps incl. adjacent frames), file partitions (incl. one frame per file), "
                "start offsets, run lengths 1-7, forward/reversed, float or packed, with/without scalar; non-trivial = distinct "
                "(frames, partition, window) with at least one frame hand-over inside the run")
    rep.assumptions = ["forcing frames on the model time grid", "node values multiples of 24/1024 m/s so that every interpolated value is exact in float32"]
    return rep
