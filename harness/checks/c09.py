"""C09 - particles stay in the water inside the domain; the dead stay dead.
TV: LadimTrace move-outcome clauses on directed coast scenarios (strong flow onto land / out of the grid)."""
from __future__ import annotations

import random

from .. import tlc
from ..common import Report, pmap
from ..e2e import base_scenario, directed

FAMILY = r"^run\.crashed|^trace\.incomplete|^move\.(outcome|alive_in_water|no_resurrection|shape)|^inv\.dead_stay_dead|^files\.dead_stay_dead"
FAMILY_T = r"^track\.(alive_in_water|every_step)|^trace\.incomplete|^diff\.horizontal|^run\.crashed|^lattice|^setup\.valid"
DRIVERS = {"e2e-coast": ("harness.e2e", "run_e2e", "LadimTrace", FAMILY),
           "tracker-window-exhaustive": ("harness.trackdrv", "track_trace", "TrackTrace", FAMILY_T),
           "tracker-diffusion-coast": ("harness.trackdrv", "track_trace", "TrackTrace", FAMILY_T)}


def window_scenarios(tier, seed):
    """small-scope exhaustive, the space of MC_Tracker executed on the real Tracker: every land / sea pattern of a 3 x 2 window of
    cells (islands, one-cell channels, bays) x every quarter-cell position in the sea cells of the valid region x every
    displacement of -1.5 .. 1.5 cells in quarter cells (169 of them), moved in one call with a scripted per-particle velocity"""
    rng = random.Random(seed + 31)
    imax, jmax = 8, 7
    masks = list(range(64)) if tier == "thorough" else rng.sample(range(64), 6)
    disp = [64 * k for k in range(-6, 7)]
    out = []
    for m in masks:
        M = [[1] * imax for _ in range(jmax)]
        for b in range(6):
            M[3 + b // 3][3 + b % 3] = (m >> b) & 1
        pts = [(i * 256 + ox, j * 256 + oy) for j in range(2, jmax - 2) for i in range(2, imax - 2) if M[j][i]
               for ox in (-96, -32, 32, 96) for oy in (-96, -32, 32, 96)]
        parts = [(x, y, dx, dy) for (x, y) in pts for dx in disp for dy in disp]
        rng.shuffle(parts)
        for c in range(0, len(parts), 6000):
            ch = parts[c:c + 6000]
            n = len(ch)
            out.append(dict(imax=imax, jmax=jmax, M=M, H=[[40] * imax for _ in range(jmax)], subgrid=None, dt=64, dx=128, dy=128,
                            adv=rng.choice(["EF", "RK2", "RK4"]), D=0.0, Dz=0.0, s16=0, sz16=0, vadv=False,
                            x=[p[0] for p in ch], y=[p[1] for p in ch], z=[160] * n, active=[rng.random() > 0.05 for _ in range(n)],
                            steps=[dict(un=[p[2] for p in ch], vn=[p[3] for p in ch], wn=[0] * n)], stream=[1],
                            cls=dict(mask=m, hdiff=False, vdiff=False, vadv=False, advect=True, flat=True)))
    return out


def diffusion_scenarios(tier, seed):
    """the real Tracker with horizontal diffusion (scripted lattice draws) among land cells and next to the open boundary:
    the random displacement must be subject to the same kill / cancel / move rules as the advective one"""
    from ..trackdrv import scenario
    rng = random.Random(seed + 23)
    return [scenario(rng, horiz_diff=True, vert_diff=rng.random() < 0.25, vadv=False, advect=rng.random() < 0.7, land=True, flat=True)
            for _ in range(600 if tier == "thorough" else 150)]


def scenarios(tier, seed):
    rng = random.Random(seed)
    n = 1500 if tier == "thorough" else 330
    return [directed(rng, "coast", dx=128.0) if k % 4 else base_scenario(rng, dx=128.0) for k in range(n)]


def run(tier, seed):
    rep = Report("C09", tier, seed)
    rep.add_mc("MC_Tracker", tlc.model_check("MC_Tracker", "MC_Tracker.cfg" if tier == "thorough" else "MC_Tracker_quick.cfg", must_take=["Place", "Step"], timeout=3000),
               note="StaysInWater (inductive step), DeadStayDead, InactiveNotMoved, KilledNotMoved for all masks / positions / displacements")
    scs = scenarios(tier, seed)
    traces = pmap("harness.e2e", "run_e2e", scs)
    rep.add_tv("e2e-coast", "LadimTrace", scs, traces, tlc.validate_traces("LadimTrace", traces, batch_events=1500), family=FAMILY)
    rep.require_counts("e2e-coast", {"moved": 200, "killed": 20, "cancelled": 20})
    ds = diffusion_scenarios(tier, seed)
    dtr = pmap("harness.trackdrv", "track_trace", ds)
    rep.add_tv("tracker-diffusion-coast", "TrackTrace", ds, dtr, tlc.validate_traces("TrackTrace", dtr), family=FAMILY_T)
    rep.require_counts("tracker-diffusion-coast", {"tkilled": 10, "tcancelled": 10})
    ws = window_scenarios(tier, seed)
    wtr = pmap("harness.trackdrv", "track_trace", ws)
    rep.add_tv("tracker-window-exhaustive", "TrackTrace", ws, wtr, tlc.validate_traces("TrackTrace", wtr, batch_events=4, timeout=1800), family=FAMILY_T)
    rep.require_counts("tracker-window-exhaustive", {"tcancelled": 1000})
    rep.extra["window_particle_moves"] = sum(len(s["x"]) for s in ws)
    rep.nontrivial = len({repr((s["M"], s["fm"], s["rows"])) for s in scs if s["cls"]["nsteps"] >= 3})
    rep.rule = ("10 x 9 grids with 6-13 random land cells, strong uniform flow in a random direction (0.35-0.55 cell per step), releases in "
                "several sea cells, EF/RK2/RK4, scripted kills and freezes; non-trivial = distinct (mask, flow, releases) with >= 3 steps; "
                "the run is vacuous (exit 2) unless moved/killed/cancelled outcomes were each matched often enough; plus tracker steps with "
                "horizontal diffusion switched on (scripted draws) among land cells and next to the margin of the valid region")
    rep.assumptions = ["interval semantics: within 4/65536 cell of the grid margin or of a cell edge either outcome is accepted (DESIGN 3c)",
                       "the velocities the tracker was given are taken from the recording forcing; their correctness is C02/C03"]
    return rep
