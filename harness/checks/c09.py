"""C09 - particles stay in the water inside the domain; the dead stay dead.
TV: LadimTrace move-outcome clauses on directed coast scenarios (strong flow onto land / out of the grid)."""
from __future__ import annotations

import random

from .. import tlc
from ..common import Report, pmap
from ..e2e import base_scenario, directed

FAMILY = r"^move\.(outcome|alive_in_water|no_resurrection|shape)|^inv\.dead_stay_dead|^files\.dead_stay_dead"
DRIVERS = {"e2e-coast": ("harness.e2e", "run_e2e", "LadimTrace", FAMILY)}


def scenarios(tier, seed):
    rng = random.Random(seed)
    n = 1500 if tier == "thorough" else 330
    return [directed(rng, "coast", dx=128.0) if k % 4 else base_scenario(rng, dx=128.0) for k in range(n)]


def run(tier, seed):
    rep = Report("C09", tier, seed)
    rep.add_mc("MC_Tracker", tlc.model_check("MC_Tracker", "MC_Tracker.cfg" if tier == "thorough" else "MC_Tracker_quick.cfg", must_take=["Place", "Step"], timeout=3000),
               note="StaysInWater (inductive step), DeadStayDead, InactiveNotMoved, KilledNotMoved for all masks / positions / displacements")
    scs = scenarios(tier, seed)
    traces = pmap("harness.e2e", "run_e2e", scs)
    rep.add_tv("e2e-coast", "LadimTrace", scs, traces, tlc.validate_traces("LadimTrace", traces, batch_events=1500), family=FAMILY)
    rep.require_counts("e2e-coast", {"moved": 200, "killed": 20, "cancelled": 20})
    rep.nontrivial = len({repr((s["M"], s["fm"], s["rows"])) for s in scs if s["cls"]["nsteps"] >= 3})
    rep.rule = ("10 x 9 grids with 6-13 random land cells, strong uniform flow in a random direction (0.35-0.55 cell per step), releases in "
                "several sea cells, EF/RK2/RK4, scripted kills and freezes; non-trivial = distinct (mask, flow, releases) with >= 3 steps; "
                "the run is vacuous (exit 2) unless moved/killed/cancelled outcomes were each matched often enough")
    rep.assumptions = ["interval semantics: within 4/65536 cell of the grid margin or of a cell edge either outcome is accepted (DESIGN 3c)",
                       "the velocities the tracker was given are taken from the recording forcing; their correctness is C02/C03"]
    return rep
