"""C04 - release accounting.  MC: MC_Release (operational = declarative schedule).  TV: ReleaseTrace on the real
TimeKeeper + State + ParticleReleaser stepped through whole windows."""
from __future__ import annotations

import os
import random
import shutil

from .. import tlc
from ..common import Report, pmap
from ..enc import iso, lat, secs_of

FAMILY = r"^(trace\.incomplete|release\.(after_start_up|step|count|no_off|pids|rows|payload|time_stamp|alive|total|refuses_only_empty)|startup\.empty_release_refused|run\.crashed|setup\.valid)"
QX, QZ = 64, 4


def _fmt_time(t, style):
    s = iso(t)  # YYYY-MM-DDTHH:MM:SS
    if style == "short" and s.endswith(":00"):
        s = s[:-3]
        if s.endswith("T00:00"):
            s = s[:-6]
    return s


def release_trace(sc):
    import numpy as np
    from ladim.release import ParticleReleaser
    from ladim.state import State
    from ladim.timekeeper import TimeKeeper
    c, rows = sc["cfg"], sc["table"]
    ev = [dict(ev="setup", cfg=c, table=[dict(t=r["t"], mult=r["mult"], pay=r["pay"]) for r in rows])]
    work = tlc.scratch("lv_rel_")
    try:
        cols = list(sc["cols"])
        path = os.path.join(work, "release.rls")
        with open(path, "w") as f:
            if sc["header"]:
                f.write(" ".join(cols) + "\n")
            for r in rows:
                p = r["pay"]
                val = dict(mult=str(r["mult"]), release_time=_fmt_time(r["t"], sc["tfmt"]), X=repr(p["x"] / QX), Y=repr(p["y"] / QX),
                           Z=repr(p["z"] / QZ), farm=str(p["id"]), wt=repr(p["wt"] / QZ), hatch=iso(p.get("ht", 0)))
                f.write(sc["sep"].join(val[k] for k in cols) + "\n")
        timer = TimeKeeper(start=iso(c["start"]), stop=iso(c["stop"]), dt=c["dt"], time_reversal=c["rev"])
        has_hatch = "hatch" in cols       # a second time-typed column, carried as a particle variable
        st = State(instance_variables=dict(farm=int, wt=float), particle_variables=dict(release_time="time", **({"hatch": "time"} if has_hatch else {})),
                   default_values=dict(wt=0.0))
        kw = dict(continuous=c["cont"])
        if c["cont"]:
            kw["release_frequency"] = sc.get("freqform", c["freq"])
        elif sc.get("idle_freq"):      # a discrete release that still names a frequency (a continuous set-up switched off by its flag): it must not matter
            kw["release_frequency"] = sc["idle_freq"]
        if not sc["header"]:
            kw["names"] = cols
        try:
            pr = ParticleReleaser(dict(time=timer, state=st, grid=None), path, **kw)
        except SystemExit:
            ev.append(dict(ev="refused"))
            return ev
        ev.append(dict(ev="made"))
        for _ in range(timer.Nsteps):
            timer.update()
            k = len(st)
            pr.update()
            new, off = [], False
            for i in range(k, len(st)):
                x, o1 = lat(st.X[i], QX)
                y, o2 = lat(st.Y[i], QX)
                z, o3 = lat(st.Z[i], QZ)
                w, o4 = lat(st.wt[i], QZ)
                pid = int(st.pid[i])
                rt = secs_of(st["release_time"][pid]) if pid < len(st["release_time"]) else None
                ht = (secs_of(st["hatch"][pid]) if pid < len(st["hatch"]) else None) if has_hatch else 0
                off |= o1 or o2 or o3 or o4 or rt is None or ht is None
                new.append(dict(pid=pid, pay=dict(id=int(st.farm[i]), x=x, y=y, z=z, wt=w, ht=ht if ht is not None else -1), rt=rt if rt is not None else 0,
                                alive=bool(st.alive[i]), active=bool(st.active[i])))
            ev.append(dict(ev="release", step=int(timer.step), new=new, npid=int(st.npid), off=bool(off)))
    except SystemExit as e:
        ev.append(dict(ev="crash", what=f"SystemExit({e.code}) after start-up"))
    except Exception as e:
        ev.append(dict(ev="crash", what=f"{type(e).__name__}: {str(e)[:120]}"))
    finally:
        shutil.rmtree(work, ignore_errors=True)
    return ev


def scenario(rng, small):
    dt = rng.choice([30, 60]) if small else rng.choice([30, 60, 600, 3600])
    tmax = 5 if small else 16
    a, b = sorted(rng.sample(range(0, tmax + 1), 2))
    rev = rng.random() < 0.5
    base = rng.choice([0, 86400 * 31, 7 * 3600])
    cont = rng.random() < 0.5
    fq = rng.choice([1, 2, 3]) if cont else 1
    start, stop = (base + (b * dt), base + a * dt) if rev else (base + a * dt, base + b * dt)
    nsteps = b - a
    ntimes = rng.choice([1, 1, 2, 3]) if small else rng.choice([1, 2, 3, 4])
    lo, hi = -2, nsteps + 1
    if cont:
        first = rng.randrange(lo, hi + 1)
        sims = sorted({first + fq * k for k in rng.sample(range(0, 8), ntimes)} | {first})
    else:
        sims = sorted(rng.sample(range(lo, hi + 1), min(ntimes, hi - lo + 1)))
    rows, rid = [], 0
    long_table = rng.random() < 0.04          # now and then a table of 20-60 rows with many rows per release time (order among equal times)
    for s in sims:
        t = start - s * dt if rev else start + s * dt
        for _ in range(rng.choice([1, 1, 2, 3]) if not long_table else rng.randrange(7, 16)):
            rid += 1
            rows.append(dict(t=t, mult=rng.choice([0, 1, 1, 2, 3]) if rng.random() > 0.02 else rng.choice([257, 700]),      # (now and then a row with hundreds of particles)
                             pay=dict(id=rid, x=rng.randrange(1 * QX, 9 * QX), y=rng.randrange(1 * QX, 7 * QX),
                                      z=rng.randrange(0, 50 * QZ), wt=rng.randrange(0, 40), ht=0)))
    nomult = rng.random() < 0.15
    if nomult:
        for r in rows:
            r["mult"] = 1
    cols = ["mult", "release_time", "X", "Y", "Z", "farm", "wt"]
    if rng.random() < 0.3:              # a second time-typed column (hatching time some hours before / after the release)
        cols.append("hatch")
        for r in rows:
            r["pay"]["ht"] = r["t"] + 3600 * rng.randrange(-30, 30)
    if nomult:
        cols.remove("mult")
    if rng.random() < 0.5:
        rng.shuffle(cols)
    freqform = fq * dt
    if cont and rng.random() < 0.3:
        freqform = f"PT{fq * dt}S"
    inwin = sum(1 for r in rows for _ in [0] if 0 <= ((start - r["t"]) if rev else (r["t"] - start)) < nsteps * dt)
    return dict(cfg=dict(start=start, stop=stop, dt=dt, rev=rev, cont=cont, freq=fq * dt), table=rows,
                idle_freq=(rng.choice([1, 2, 3]) * dt if (not cont and rng.random() < 0.35) else 0),
                cols=cols, header=rng.random() < 0.6, sep=rng.choice([" ", "  ", "\t"]), tfmt=rng.choice(["full", "short"]),
                freqform=freqform,
                cls=dict(rev=rev, cont=cont, multi_time=len(sims) > 1, rows_in_window=inwin > 0,
                         only_at_stop=(inwin == 0 and any(((start - r["t"]) if rev else (r["t"] - start)) == nsteps * dt for r in rows))))


def from_model(scn, rng):
    """materialise a (window, direction, mode, table) chosen by TLC (MC_Release / GEN configuration): one tick = one model step"""
    dt = rng.choice([30, 60])
    base = rng.choice([0, 86400 * 31])
    c = scn["cfg"]
    rows = []
    for r in scn["table"]:
        rows.append(dict(t=base + r["t"] * dt, mult=r["mult"],
                         pay=dict(id=r["id"], x=rng.randrange(1 * QX, 9 * QX), y=rng.randrange(1 * QX, 7 * QX), z=rng.randrange(0, 50 * QZ), wt=rng.randrange(0, 40), ht=0)))
    cols = ["mult", "release_time", "X", "Y", "Z", "farm", "wt"]
    if rng.random() < 0.3:              # a second time-typed column (hatching time some hours before / after the release)
        cols.append("hatch")
        for r in rows:
            r["pay"]["ht"] = r["t"] + 3600 * rng.randrange(-30, 30)
    return dict(cfg=dict(start=base + c["start"] * dt, stop=base + c["stop"] * dt, dt=dt, rev=c["rev"], cont=c["cont"], freq=c["freq"] * dt), table=rows,
                cols=cols, header=True, sep=" ", tfmt="full", freqform=c["freq"] * dt,
                cls=dict(rev=c["rev"], cont=c["cont"], multi_time=len({r["t"] for r in rows}) > 1, rows_in_window=not scn["refused"], only_at_stop=False, from_model=True))


DRIVERS = {"release": ("harness.checks.c04", "release_trace", "ReleaseTrace", FAMILY),
           "release-from-model": ("harness.checks.c04", "release_trace", "ReleaseTrace", FAMILY)}


def scenarios(tier, seed):
    rng = random.Random(seed)
    n_small, n_big = (12000, 6000) if tier == "thorough" else (1800, 700)
    return [scenario(rng, True) for _ in range(n_small)] + [scenario(rng, False) for _ in range(n_big)]


def run(tier, seed, family=FAMILY, pid="C04"):
    rep = Report(pid, tier, seed)
    rep.add_mc("MC_Release", tlc.model_check("MC_Release", "MC_Release.cfg" if tier == "thorough" else "MC_Release_quick.cfg",
                                             must_take=["AddRow", "Start", "Run"], timeout=3000))
    scs = scenarios(tier, seed)
    traces = pmap("harness.checks.c04", "release_trace", scs)
    rep.add_tv("release", "ReleaseTrace", scs, traces, tlc.validate_traces("ReleaseTrace", traces), family=family)
    # spec -> code: every small (window, direction, mode, table) enumerated by TLC on the release model
    import json
    import re
    gen = tlc.run_tlc("MC_Release", "GEN_Release.cfg", workers=8, timeout=1200)
    if gen.error or gen.violated:
        raise tlc.MachineryError("GEN_Release failed: " + (gen.error or str(gen.violated)))
    scns = [json.loads(json.loads(x)) for x in re.findall(r'<<"SCN", ("(?:[^"\\]|\\.)*")>>', gen.out)]
    if len(scns) < 10000:
        raise tlc.MachineryError(f"too few release scenarios generated by TLC: {len(scns)}")
    rng = random.Random(seed + 5)
    pick = scns if tier == "thorough" else rng.sample(scns, 3000)
    ms = [from_model(x, rng) for x in pick]
    mt = pmap("harness.checks.c04", "release_trace", ms)
    rep.add_tv("release-from-model", "ReleaseTrace", ms, mt, tlc.validate_traces("ReleaseTrace", mt), family=family)
    rep.extra["scenarios_generated_by_tlc"] = len(scns)
    rep.nontrivial = len({repr((s["cfg"], s["table"])) for s in scs + ms if s["cls"]["rows_in_window"]})
    rep.rule = ("random release set-ups (window, direction, discrete/continuous, frequency, 1-4 file times x 1-3 rows (now and then 7-15 rows per time, 20-60 in all), mult 0-3 (now and then hundreds), with or without an idle frequency, a second time-typed column in a third of the tables, "
                "column order, header or names, separators, time spellings); non-trivial = distinct (cfg, table) with a row inside the window")
    rep.assumptions = ["release tables sorted in simulation order, times on the model time grid, continuous file times on the tick grid (C04's quantifier)",
                       "positions given as X/Y (lon/lat conversion is C16)"]
    return rep
