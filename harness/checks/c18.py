"""C18 - one simulation, three spellings.  MC: MC_Config (the three renderings of every feature vector denote the same
canonical configuration).  TV: for generated feature vectors the harness writes a v2 YAML, a v2 TOML and a legacy v1 YAML
document; configure() on each is validated against Config!Canon (ConfigTrace) and ladim.main on each must produce the same
output (PairTrace, kind "same")."""
from __future__ import annotations

import datetime
import glob
import os
import random
import shutil

from .. import tlc
from ..common import Report, pmap
from ..e2e import base_scenario, decode_files
from ..enc import iso, secs_of
from ..forcedrv import file_names, write_files

FAMILY_C = r"^config\."
FAMILY_P = r"^(pair|same)\."
DRIVERS = {"spellings-config": ("harness.checks.c18", "config_only", "ConfigTrace", FAMILY_C),
           "spellings-output": ("harness.checks.c18", "pair_only", "PairTrace", FAMILY_P)}


# ------------------------------------------------------------------------------------------------ renderers (data)
def toml_dumps(d, prefix=""):
    """minimal TOML writer for the nested dictionaries used here"""
    def val(v):
        if isinstance(v, bool):
            return "true" if v else "false"
        if isinstance(v, (int, float)):
            return repr(v)
        if isinstance(v, datetime.datetime):          # TOML local date-time (bare)
            return v.strftime("%Y-%m-%dT%H:%M:%S")
        if isinstance(v, str):
            return '"' + v.replace("\\", "\\\\").replace('"', '\\"') + '"'
        if isinstance(v, (list, tuple)):
            return "[" + ", ".join(val(x) for x in v) + "]"
        raise TypeError(type(v))
    out, tables = [], []
    for k, v in d.items():
        if isinstance(v, dict):
            tables.append((k, v))
        else:
            out.append(f"{k} = {val(v)}")
    txt = "\n".join(out) + ("\n" if out else "")
    for k, v in tables:
        name = f"{prefix}{k}"
        txt += f"\n[{name}]\n" + toml_dumps(v, name + ".")
    return txt


def tval(fv, t):
    """a time as the document spells it: ISO string, or the format's native date-time (YAML timestamp / TOML local date-time)"""
    if fv.get("timeform") == "native":
        return datetime.datetime(2000, 1, 1) + datetime.timedelta(seconds=int(t))
    return iso(t)


def pval(fv, secs):
    """a period as the document spells it: seconds, [value, unit] or ISO 8601"""
    f = fv.get("perform", "int")
    if f == "list":
        return [secs // 60, "m"] if secs % 60 == 0 else [secs, "s"]
    if f == "iso":
        return f"PT{secs // 60}M" if secs % 60 == 0 else f"PT{secs}S"
    return secs


def psecs(v):
    """seconds of a period in any of the accepted spellings (projection side)"""
    import re
    if isinstance(v, (list, tuple)):
        return int(v[0]) * {"s": 1, "m": 60, "h": 3600}[str(v[1])]
    if isinstance(v, str):
        m = re.fullmatch(r"PT(?:(\d+)H)?(?:(\d+)M)?(?:(\d+)S)?", v)
        return int(m.group(1) or 0) * 3600 + int(m.group(2) or 0) * 60 + int(m.group(3) or 0)
    return int(v)


def first_file(sc):
    from ..world import partition
    return file_names(sc, len(partition(len(sc["ftimes"]), sc["cuts"])))[0]


def v2_doc(sc, work):
    fv = sc["fv"]
    out_iv = {v: dict(encoding=dict(datatype=t), attributes=dict(long_name=v)) for v, t in [("pid", "i4"), ("X", "f8"), ("Y", "f8"), ("Z", "f8")]}
    doc = dict(version={"int": 2, "float": 2.0, "str": "2.0"}[fv.get("vform", "int")],
               time=dict(start=tval(fv, sc["start"]), stop=tval(fv, sc["stop"]), dt=pval(fv, sc["dt"]), **({"reference": tval(fv, sc["ref"])} if sc["fv"].get("hasref") else {})),
               forcing=dict(module=sc.get("usermod") or "ladim.ROMS", filename=os.path.join(work, fv["wildname"] if fv["wildcard"] else first_file(sc))),
               tracker=dict(advection=fv["adv"]),
               state=dict(particle_variables=dict(release_time="time", **({"farmid": "int"} if fv["extracol"] else {}))),
               release=dict(release_file=os.path.join(work, "r_h.rls" if fv.get("hdr") else "r.rls"), continuous=fv["cont"], **({} if fv.get("hdr") else {"names": names(fv)})),
               output=dict(filename=os.path.join(work, "OUTNAME"), output_period=pval(fv, sc["dt"] * sc["ops"]), instance_variables=out_iv))
    if fv.get("fmod") and not sc.get("usermod"):      # the forcing (and grid) module left to its default
        doc["forcing"].pop("module")
    if fv["diffusion"]:
        doc["tracker"]["diffusion"] = float(fv["diffusion"])
    if fv["cont"]:
        doc["release"]["release_frequency"] = pval(fv, fv["freq"])
    if fv.get("ibm"):          # a user IBM with its own instance variable (and, with xforce, scalar forcing as a further one)
        extra = ["age"] + (["temp"] if fv.get("xforce") else [])
        doc["state"]["instance_variables"] = {v: "float" for v in extra}
        doc["state"]["default_values"] = {v: 0 for v in extra}
        doc["ibm"] = dict(module=os.path.join(work, "age_ibm.py"), inc=2)
        for v in extra:
            doc["output"]["instance_variables"][v] = dict(encoding=dict(datatype="f8"), attributes=dict(long_name=v))
        if fv.get("xforce"):
            doc["forcing"]["extra_forcing"] = ["temp"]
    if fv["gridsec"] != "omitted":
        doc["grid"] = dict(module=sc.get("usermod") or "ladim.ROMS")
        if fv.get("fmod") and not sc.get("usermod"):
            doc["grid"].pop("module")
        if fv["gridsec"] == "explicit":
            doc["grid"]["filename"] = os.path.join(work, "grid_only.nc")
        if fv["subgrid"]:
            doc["grid"]["subgrid"] = list(sc["subgrid_v"])
    if fv["optsec"] == "present":
        doc.setdefault("ibm", dict())
        doc["warm_start"] = dict()
    if fv["pvars"]:
        pv = dict(release_time=dict(encoding=dict(datatype="f8"), attributes=dict(long_name="particle release time", units="seconds since reference_time")))
        if fv["extracol"]:
            pv["farmid"] = dict(encoding=dict(datatype="i4"), attributes=dict(long_name="farm"))
        doc["output"]["particle_variables"] = pv
    return doc


def v1_doc(sc, work):
    fv = sc["fv"]
    pr = dict(variables=names(fv), particle_variables=["release_time"] + (["farmid"] if fv["extracol"] else []), release_time="time")
    if fv["extracol"]:
        pr["farmid"] = "int"
    if fv["cont"]:
        pr["release_type"] = "continuous"
        pr["release_frequency"] = pval(fv, fv["freq"])
    files = dict(particle_release_file=os.path.join(work, "r.rls"), output_file=os.path.join(work, "OUTNAME"))
    where = files if fv.get("v1files") else None          # version 1 accepts the forcing / grid file names in its `files` section as well
    gf = dict(module=sc.get("usermod") or ("ladim.gridforce.ROMS" if fv.get("v1mod") == "ladim" else "ladim1.gridforce.ROMS"))     # both names occur in version 1 files
    (where if where is not None else gf)["input_file"] = os.path.join(work, fv["wildname"] if fv["wildcard"] else first_file(sc))
    if fv["gridsec"] == "explicit":
        (where if where is not None else gf)["gridfile"] = os.path.join(work, "grid_only.nc")
    if fv["subgrid"] and fv["gridsec"] != "omitted":
        gf["subgrid"] = list(sc["subgrid_v"])
    extra = (["age"] + (["temp"] if fv.get("xforce") else [])) if fv.get("ibm") else []
    if fv.get("xforce") and fv.get("ibm"):
        gf["ibm_forcing" if fv.get("v1xf") == "ibm_forcing" else "extra_forcing"] = ["temp"]      # the documented version 1 key is ibm_forcing
    ov = dict(outper=pval(fv, sc["dt"] * sc["ops"]), format="NETCDF4", instance=["pid", "X", "Y", "Z"] + extra, age=dict(ncformat="f8", long_name="age"), temp=dict(ncformat="f8", long_name="temp"), particle=(["release_time"] + (["farmid"] if fv["extracol"] else [])) if fv["pvars"] else [],
              pid=dict(ncformat="i4", long_name="pid"), X=dict(ncformat="f8", long_name="X"), Y=dict(ncformat="f8", long_name="Y"), Z=dict(ncformat="f8", long_name="Z"),
              release_time=dict(ncformat="f8", long_name="particle release time", units="seconds since reference_time"), farmid=dict(ncformat="i4", long_name="farm"))
    doc = dict(time_control=dict(start_time=tval(fv, sc["start"]), stop_time=tval(fv, sc["stop"]), **({"reference_time": tval(fv, sc["ref"])} if fv.get("hasref") else {})),
               files=files,
               gridforce=gf, particle_release=pr, numerics=dict(dt=pval(fv, sc["dt"]), advection=fv["adv"], diffusion=float(fv["diffusion"])), output_variables=ov)
    if fv["optsec"] == "present":
        doc["ibm"] = dict()
    if fv.get("ibm"):
        doc["ibm"] = dict(ibm_module=os.path.join(work, "age_ibm.py"), variables=extra, inc=2)
    return doc


def names(fv):
    return ["mult", "release_time", "X", "Y", "Z"] + (["farmid"] if fv["extracol"] else [])


def project(conf, work):
    """canonical projection of the dictionary configure() returned (pure selection / renaming)"""
    def base(p):
        return os.path.basename(str(p))
    t = conf["time"]
    rel = conf["release"]
    out = conf["output"]
    cont = bool(rel.get("continuous", False))
    def header_of(path):
        with open(path) as f:
            return f.readline().split()
    return dict(start=secs_of(t["start"]), stop=secs_of(t["stop"]), dt=psecs(t["dt"]), ref=(secs_of(t["reference"]) if t.get("reference") else -1),
                gridfile=base(conf["grid"].get("filename", "")), subgrid=bool(conf["grid"].get("subgrid")), forcing=base(conf["forcing"]["filename"]),
                adv=conf["tracker"].get("advection", ""), diffusion=int(round(float(conf["tracker"].get("diffusion", 0)))),
                cont=cont, freq=psecs(rel.get("release_frequency", 0)) if cont else 0, names=list(rel.get("names") or []),
                header=(header_of(rel["release_file"]) if not rel.get("names") else []),
                state_pvars=sorted((conf.get("state") or {}).get("particle_variables") or {}),
                state_ivars=sorted((conf.get("state") or {}).get("instance_variables") or {}), has_ibm=bool((conf.get("ibm") or {}).get("module")),
                ibm_inc=int((conf.get("ibm") or {}).get("inc", 0)), extra_forcing=list(conf["forcing"].get("extra_forcing") or []),
                out_ivars=sorted(out["instance_variables"]), out_pvars=sorted(out.get("particle_variables") or {}),
                outper=psecs(out["output_period"]), gridmod=base(conf["grid"].get("module", "")), forcemod=base(conf["forcing"].get("module", "")))


def run_spellings(sc):
    import gc
    import logging

    import yaml
    from ladim.configure import configure
    from ladim.main import main
    from ..pairs import flatten
    fv = sc["fv"]
    work = tlc.scratch("lv_c18_")
    cfg_trace = [dict(ev="setup", fv=fv, first=first_file(sc), ref=(sc["ref"] if fv.get("hasref") else -1), start=sc["start"], stop=sc["stop"], dt=sc["dt"], outper=sc["dt"] * sc["ops"])]
    pair = [dict(ev="setup", kinds=[] if fv["diffusion"] else ["same", "same"])]
    try:
        write_files(sc, work)
        for fname, head in (("r.rls", False), ("r_h.rls", True)):       # the same table without and with a header line
            with open(os.path.join(work, fname), "w") as f:
                if head:
                    f.write(" ".join(names(fv)) + "\n")
                for r in sc["rows"]:
                    f.write(f"{r['mult']} {iso(r['t'])} {r['xf']!r} {r['yf']!r} {r['zf']!r}" + (f" {r['id']}" if fv["extracol"] else "") + "\n")
        # an explicitly named grid file is a file of its own with twice the grid spacing: reading the grid from a forcing file instead changes the run
        from netCDF4 import Dataset
        shutil.copy(os.path.join(work, first_file(sc)), os.path.join(work, "grid_only.nc"))
        with Dataset(os.path.join(work, "grid_only.nc"), "a") as g:
            g.variables["pm"][:] = g.variables["pm"][:] * 0.5
            g.variables["pn"][:] = g.variables["pn"][:] * 0.5
        with open(os.path.join(work, "age_ibm.py"), "w") as f:
            f.write("from ladim.ibm import IBM as _Base\n\n\nclass IBM(_Base):\n    def update(self):\n"
                    "        st = self.modules['state']\n        st['age'] = st['age'] + self.opts['inc']\n")
        if sc.get("plugmod"):
            # a user grid/forcing module given by path: a ROMS grid with a narrower valid region.  "Omitting the grid section uses
            # the forcing module": the stock grid would keep particles alive longer
            with open(os.path.join(work, "my_roms.py"), "w") as f:
                f.write("from ladim.ROMS import Forcing, Grid as _G\n\n\nclass Grid(_G):\n    def ingrid(self, X, Y):\n"
                        "        return super().ingrid(X, Y) & (X < self.xmax - 1.5) & (Y < self.ymax - 1.5)\n")
            sc = dict(sc, usermod=os.path.join(work, "my_roms.py"))
        docs = []
        for k, (kind, ext) in enumerate((("yaml2", "yaml"), ("toml2", "toml"), ("yaml1", "yaml"))):
            doc = (v1_doc if kind == "yaml1" else v2_doc)(sc, work)
            if kind == "yaml2" and fv["optsec"] == "present" and fv.get("nullsec"):
                # YAML's way of writing an empty section: the key with no body (null); TOML has no null, its empty table stays
                doc = dict(doc, **{k: None for k in ("ibm", "warm_start") if doc.get(k) == {}})
            txt = toml_dumps(doc) if kind == "toml2" else yaml.safe_dump(doc)
            txt = txt.replace("OUTNAME", f"out_{kind}.nc")
            path = os.path.join(work, f"c_{kind}.{ext}")
            with open(path, "w") as f:
                f.write(txt)
            docs.append((kind, path))
        for k, (kind, path) in enumerate(docs):
            try:
                conf = configure(path)
                cfg_trace.append(dict(ev="config", kind=kind, ok=True, proj=project(conf, work)))
            except BaseException as e:  # noqa: BLE001
                cfg_trace.append(dict(ev="config", kind=kind, ok=False, proj={}, what=f"{type(e).__name__}: {str(e)[:80]}"))
            if fv["diffusion"]:      # random walk: the three outputs cannot be identical, the spellings are compared as configurations only
                continue
            err = None
            try:
                main(path, loglevel=logging.CRITICAL)
            except BaseException as e:  # noqa: BLE001
                err = f"{type(e).__name__}: {str(e)[:80]}"
            gc.collect()
            if err:
                run = dict(ok=False, recs=[], idx=[], refs=[], pvrt=[], pvsrc=[], what=err)
            else:
                files = decode_files(work, dict(hasscal=bool(fv.get("ibm") and fv.get("xforce"))), pattern=f"out_{kind}*.nc")
                for f_ in files:
                    for r in f_["recs"]:
                        if not fv.get("ibm"):
                            r["age"] = [0] * len(r["pid"])
                        r["farm"] = [0] * len(r["pid"])
                    f_["pv_src"] = _farmid(work, kind, f_)
                run = flatten([dict(ev="files", files=files)])
            pair.append(dict(ev="runA" if k == 0 else "runB", kind="same", **run))
    finally:
        shutil.rmtree(work, ignore_errors=True)
    return dict(config=cfg_trace, pair=pair)


def _farmid(work, kind, f_):
    import numpy as np
    from netCDF4 import Dataset
    for fn in sorted(glob.glob(os.path.join(work, f"out_{kind}*.nc"))):
        with Dataset(fn) as d:
            if "farmid" in d.variables:
                return [int(x) for x in np.ma.filled(d.variables["farmid"][:], -(2**30))]
    return []


def config_only(sc):
    return run_spellings(sc)["config"]


def pair_only(sc):
    return run_spellings(sc)["pair"]


def scenario(rng):
    base = base_scenario(rng, rev=False, nkill=0, nfreeze=0, layout="sparse", numrec=0, hasscal=False, allow_subgrid=False, exact_stop=True,
                         nsteps=rng.randrange(3, 9), fm=dict(a=0, b=0, c=rng.randrange(0, 97), d=rng.choice([0, 1, 2]), e=0))
    sub = rng.random() < 0.5
    gridsec = rng.choice(["explicit", "nofile", "omitted"])
    fv = dict(cont=base["cont"], freq=base["freq"], extracol=rng.random() < 0.5, pvars=rng.random() < 0.6, diffusion=0, subgrid=sub and gridsec != "omitted",
              gridsec=gridsec, wildcard=bool(base["cuts"]) or rng.random() < 0.3, optsec=rng.choice(["present", "omitted"]), adv=base["adv"],
              hasref=rng.random() < 0.5)
    base["ref"] = base["start"] - rng.choice([3600, 86400, 7 * 86400])
    if base["cuts"]:
        fv["wildcard"] = True
        if rng.random() < 0.5:
            base["naming"] = "unpadded"
            # the later files carry a different grid (pm, pn), so taking the grid from another file than the first changes the run
            base["grid_variant_in_later_files"] = True
    if rng.random() < 0.25:
        fv["diffusion"] = rng.choice([1, 2, 5])
    fv["ibm"] = rng.random() < 0.4
    fv["xforce"] = fv["ibm"] and rng.random() < 0.5
    fv["v1files"] = rng.random() < 0.4
    fv["nullsec"] = rng.random() < 0.5
    fv["hdr"] = rng.random() < 0.4                                  # version 2 relies on the header line of the release file, version 1 names the columns
    fv["fmod"] = rng.random() < 0.4                                 # forcing / grid module left to the default in version 2
    fv["timeform"] = rng.choice(["str", "str", "native"])
    fv["perform"] = rng.choice(["int", "int", "list", "iso"])
    fv["vform"] = rng.choice(["int", "float", "str"])
    fv["wildname"] = rng.choice(["f_*.nc", "f_??.nc", "f_[0-9][0-9].nc"]) if not base.get("naming") else "f_*.nc"     # every glob spelling of the same set of files
    fv["v1mod"] = rng.choice(["ladim1", "ladim"])
    fv["v1xf"] = rng.choice(["extra_forcing", "ibm_forcing"])
    if fv["xforce"]:
        base["hasscal"] = True
    base["fv"] = fv
    i1 = rng.randrange(max(6, base["imax"] - 3), base["imax"])
    j1 = rng.randrange(max(6, base["jmax"] - 3), base["jmax"])
    base["subgrid_v"] = [1, i1, 1, j1]
    base["plugmod"] = rng.random() < 0.35
    base["cls"] = dict(fv, plugmod=base["plugmod"])
    return base


def run(tier, seed):
    rep = Report("C18", tier, seed)
    rep.add_mc("MC_Config", tlc.model_check("MC_Config", "MC_Config.cfg"))
    rng = random.Random(seed)
    scs = [scenario(rng) for _ in range(600 if tier == "thorough" else 150)]
    res = pmap("harness.checks.c18", "run_spellings", scs)
    cfgs = [r["config"] for r in res]
    pairs = [r["pair"] for r in res]
    rep.add_tv("spellings-config", "ConfigTrace", scs, cfgs, tlc.validate_traces("ConfigTrace", cfgs), family=FAMILY_C)
    rep.add_tv("spellings-output", "PairTrace", scs, pairs, tlc.validate_traces("PairTrace", pairs, batch_events=400), family=FAMILY_P)
    rep.nontrivial = len({repr(sorted(s["fv"].items())) for s in scs})
    rep.rule = ("random feature vectors (discrete/continuous release, extra int column as particle variable, particle variables in the output, grid section explicit / "
                "without file name / omitted, sub-rectangle, single or wildcard multi-file forcing, optional sections present-empty or omitted, EF/RK2/RK4, horizontal diffusion, a user IBM with its own instance variable and option, scalar forcing as a further instance variable, version 1 file names in `files` or `gridforce`) over "
                "random small scenarios with strong flows (particles reach the sub-rectangle boundary); non-trivial = distinct feature vectors")
    rep.assumptions = ["the three documents are written by the harness from one feature vector (TOML via a minimal writer)", "with diffusion on (a quarter of the feature vectors) the three spellings are compared as configurations only: the random walk makes outputs differ between any two runs"]
    return rep
