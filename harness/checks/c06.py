"""C06 - output records are faithful snapshots.  MC: MC_OutFile (particle variables written for every file).
TV: LadimTrace, file contents = history of state snapshots taken when output.update() was called."""
from __future__ import annotations

import random

from .. import tlc
from ..common import Report, pmap
from ..e2e import base_scenario, directed

FAMILY = r"^files\.(counts_sum|dense_fill|reference|time|attributes|time_typed_instance|records|scalar_is_state|pvars)|^output\.snap|^run\.crashed"
DRIVERS = {"e2e-records": ("harness.e2e", "run_e2e", "LadimTrace", FAMILY),
           "e2e-records-after-restart": ("harness.checks.c08", "restarted_only", "LadimTrace", FAMILY)}


def scenarios(tier, seed):
    rng = random.Random(seed)
    n = 1500 if tier == "thorough" else 330
    scs = [directed(rng, "deaths") if k % 3 else base_scenario(rng) for k in range(n)]
    scs += [directed(rng, "scale") for _ in range(6 if tier == "thorough" else 2)]      # hundreds of particles, 24-40 steps, 8-20 files
    rl = random.Random(seed + 11)
    for sc in scs:       # longitude / latitude as two more instance variables in a third of the runs (values only where the particle lives)
        if rl.random() < 0.34:
            sc["lonlat_out"] = True
        if rl.random() < 0.3:          # a time-typed instance variable (a time stamp per release row)
            sc["stampvar"] = True
        if rl.random() < 0.3:          # a state variable that is not configured for output must not appear in the file
            sc["out_drop"] = rl.sample(["Z", "age", "farm"], rl.choice([1, 1, 2]))
    rc = random.Random(seed + 29)
    for sc in scs:       # a plug-in may tidy the state up itself (State.compactify is public): the record is the same, in the dense layout too (column = identifier)
        if sc["kill"] and rc.random() < 0.4:
            n = sc["cls"]["nsteps"]
            sc["ibm_compact"] = sorted(rc.sample(range(n), min(n, rc.choice([1, 2, 3]))))
    return scs


def run(tier, seed):
    rep = Report("C06", tier, seed)
    rep.add_mc("MC_OutFile", tlc.model_check("MC_OutFile", "MC_OutFile.cfg" if tier == "thorough" else "MC_OutFile_quick.cfg", must_take=["Step", "Finish"]))
    rep.add_mc("MC_Ladim(dense)", tlc.model_check("MC_Ladim", "MC_Ladim_dense.cfg", must_take=["Call", "Restart", "Continue"], timeout=1800),
               note="dense layout on the composed model: DenseAddressing (the column written is the particle's identifier, in the uninterrupted and in every restarted run) besides the identity / record invariants")
    rep.add_mc("MC_Ladim_densebypos(control)", tlc.expect_refuted("MC_Ladim", "MC_Ladim_densebypos.cfg", "DenseAddressing"),
               note="control: the pinned addressing (list position = column) is refuted by a warm start - the restored list holds the living particles only (D32)")
    rep.add_mc("MC_Ladim_densecompact(control)", tlc.expect_refuted("MC_Ladim", "MC_Ladim_densecompact.cfg", "DenseAddressing"),
               note="control: the pinned addressing is also refuted when the dead are removed after every step (a tidy-up that is harmless for the sparse layout)")
    if tier == "thorough":
        rep.add_mc("MC_Ladim(dense, compaction after every step)", tlc.model_check("MC_Ladim", "MC_Ladim_dense_everystep.cfg", must_take=["Call", "Restart", "Continue"], timeout=1800),
                   note="addressing by identifier does not depend on when the list is compacted")
    scs = scenarios(tier, seed)
    traces = pmap("harness.e2e", "run_e2e", scs)
    rep.add_tv("e2e-records", "LadimTrace", scs, traces, tlc.validate_traces("LadimTrace", traces, batch_events=1500), family=FAMILY)
    rep.require_counts("e2e-records", {"records": 50})
    # records written after a warm start are snapshots too (time coordinate = model time, not a counter started at the restart)
    # three quarters of them write the DENSE layout: the restored state holds the living particles only, the column is still the identifier
    from .c08 import family as restart_family_sc, family_newest_dies
    rng = random.Random(seed + 3)
    fams = [restart_family_sc(rng) for _ in range(60 if tier == "thorough" else 16)]
    fams += [family_newest_dies(rng) for _ in range(40 if tier == "thorough" else 12)]
    for k, f in enumerate(fams):
        f["dense_restart"] = k % 4 != 0
        f["cls"]["dense_restart"] = f["dense_restart"]
    res = pmap("harness.checks.c08", "run_family", fams)
    rs, owners = [], []
    for f, r in zip(fams, res):
        for k, t in enumerate(r["ladim"][1:]):
            rs.append(t)
            owners.append(dict(f, restart_k=k))      # (replay re-runs the family and validates this restart)
    rep.add_tv("e2e-records-after-restart", "LadimTrace", owners, rs, tlc.validate_traces("LadimTrace", rs, batch_events=1500), family=FAMILY)
    rep.nontrivial = len({repr((s["rows"], s["kill"], s["ops"], s["numrec"], s["layout"])) for s in scs if s["kill"]})
    rep.rule = ("random end-to-end scenarios (two thirds with 2-5 scripted deaths and freezes, particle variables, lon/lat output, sparse/dense, split files, two runs with 270-780 particles over 24-40 steps and 8-20 files, "
                "several reference times, in 40 % of the runs with deaths an IBM that calls State.compactify itself after scripted steps); non-trivial = distinct (release table, kills, period, split, layout) with at least one death")
    rep.assumptions = ["files are read back with netCDF4 row by row; instance variables are written as f8/i4 so that 'the values the model state had' is exact equality"]
    return rep
