"""C12 - vertical grid.  MC: MC_Vertical (lookup identity on all integer columns; rational level depths ordered,
interleaved).  TV: VertTrace on the real z2s, sdepth, s_stretch and Grid.z_r / z_w."""
from __future__ import annotations

import itertools
import os
import random
import shutil

from .. import tlc
from ..common import Report, pmap
from ..enc import lat

FAMILY = r"^(z2s|sdepth|curve|levels|lookup)\.|^run\.crashed"


def _q(a, quantum):
    import numpy as np
    a = np.asarray(a, float) * quantum
    bad = ~np.isfinite(a) | (np.abs(a) > 2**30)
    return [int(v) for v in np.rint(np.where(bad, 0, a))], bool(bad.any())


def exact_trace(sc):
    """z2s on integer columns (half-metre units) and sdepth on rational inputs: exact events."""
    import numpy as np
    from ladim.ROMS import sdepth, z2s
    ev = [dict(ev="setup")]
    try:
        for col in sc["cols"]:
            zr = np.array(col, float)[:, None, None] / 2.0
            zs = list(range(col[0] - 4, 5))
            K, A = z2s(np.broadcast_to(zr, (len(col), 1, 1)).copy(), np.zeros(len(zs)), np.zeros(len(zs)), -np.array(zs, float) / 2.0)
            for zneg, k, a in zip(zs, K, A):
                aq, _ = lat(a, 1 << 20)
                ev.append(dict(ev="z2s", zr=col, zneg=zneg, K=int(k), Aq=int(np.rint(float(a) * (1 << 20))) if np.isfinite(a) else -1))
        for s in sc["sdepths"]:
            N = len(s["cn"])
            C = np.array(s["cn"], float) / s["cd"]
            z = sdepth(np.array([float(s["h"])]), float(s["hc"]), C, stagger=s["stagger"], Vtransform=s["vt"])[:, 0]
            nlev = N if s["stagger"] == "rho" else N - 1
            zden = 2 * N * s["cd"] * (s["hc"] + s["h"]) * 3
            zz, off = lat(z, zden)
            ev.append(dict(ev="sdepth", h=s["h"], hc=s["hc"], cn=s["cn"], cd=s["cd"], vt=s["vt"], stagger=s["stagger"], z=zz, zden=zden, off=off))
    except Exception as e:
        ev.append(dict(ev="crash", what=f"{type(e).__name__}: {str(e)[:100]}"))
    return ev


def curve_trace(sc):
    """s_stretch curves, Grid level depths (from Vinfo and from file) and lookups on the real levels."""
    import numpy as np
    from ladim.ROMS import Grid, s_stretch, sdepth, z2s
    from ..world import make_roms
    ev = [dict(ev="setup")]
    work = tlc.scratch("lv_vert_")
    try:
        for p in sc["params"]:
            N, ts, tb, vs, vt, h = p["N"], p["theta_s"], p["theta_b"], p["Vstretching"], p["Vtransform"], p["h"]
            cr = s_stretch(N, ts, tb, stagger="rho", Vstretching=vs)
            cw = s_stretch(N, ts, tb, stagger="w", Vstretching=vs)
            a, b1 = _q(cr, 1 << 24)
            b, b2 = _q(cw, 1 << 24)
            ev.append(dict(ev="curve", cr=a, cw=b, bad=bool(b1 or b2), p=repr(p)))
            hc = p["hc"]
            H = np.array([[h, h, h, h], [h, h / 2 + hc, h, h], [h, h, h, h], [h, h, h, h]], float)
            if p["fromfile"]:
                fn = os.path.join(work, "g.nc")
                make_roms(fn, imax=4, jmax=4, N=N, times=[0], h=H, hc=hc, Cs_r=cr, Cs_w=cw, Vtransform=vt)
                g = Grid(fn)
            else:
                fn = os.path.join(work, "g.nc")
                make_roms(fn, imax=4, jmax=4, N=N, times=[0], h=H, with_vertical=False)
                g = Grid(fn, Vinfo=dict(N=N, hc=hc, theta_s=ts, theta_b=tb, Vstretching=vs, Vtransform=vt))
            for (j, i) in ((0, 0), (0, 1)) if g.z_r.shape[1] > 0 else ():
                hh = float(g.H[j, i])
                zr, b1 = _q(g.z_r[:, j, i], 1 << 16)
                zw, b2 = _q(g.z_w[:, j, i], 1 << 16)
                ev.append(dict(ev="levels", h=int(round(hh * 65536)), zr=zr, zw=zw, bad=bool(b1 or b2)))
                if hh <= 200:
                    Z = np.concatenate([np.linspace(-1, hh + 5, 23), -g.z_r[:, j, i]])
                    K, A = z2s(g.z_r, np.full(len(Z), float(i)), np.full(len(Z), float(j)), Z)
                    zq, _ = _q(g.z_r[:, j, i], 256)
                    for z, k, a in zip(Z, K, A):
                        ev.append(dict(ev="lookup", zr=zq, zneg=int(np.rint(-z * 256)), K=int(k), Aq=int(np.rint(float(a) * 4096)) if np.isfinite(a) else -1))
            # particles between two cells of different depth: the column of the particle's own (nearest) cell must be used
            if N >= 2 and float(g.H[0, 0]) <= 200 and float(g.H[0, 1]) <= 200:
                cols = [_q(g.z_r[:, 0, 0], 256)[0], _q(g.z_r[:, 0, 1], 256)[0]]
                for xq in (1, 2, 3):
                    Z = np.linspace(0.5, float(min(g.H[0, 0], g.H[0, 1])) * 0.95, 7)
                    K, A = z2s(g.z_r, np.full(len(Z), xq / 4.0), np.zeros(len(Z)), Z)
                    for z, k, a in zip(Z, K, A):
                        ev.append(dict(ev="lookup2", cols=cols, xq=xq, zneg=int(np.rint(-z * 256)), K=int(k), Aq=int(np.rint(float(a) * 4096)) if np.isfinite(a) else -1))
    except Exception as e:
        import traceback
        tb_ = traceback.extract_tb(e.__traceback__)[-1]
        ev.append(dict(ev="crash", what=f"{type(e).__name__}: {str(e)[:100]} @{os.path.basename(tb_.filename)}:{tb_.lineno}"))
    finally:
        shutil.rmtree(work, ignore_errors=True)
    return ev


def exact_scenarios(tier, rng):
    zmax = 18
    cols = []
    for n in (1, 2, 3, 4) if tier == "thorough" else (1, 2, 3):
        allc = list(itertools.combinations(range(-zmax, 0, 2), n))
        rng.shuffle(allc)
        cols += [list(c) for c in allc[: (400 if tier == "thorough" else 120)]]
    sds = []
    for N in (1, 2, 3, 4):
        for _ in range(60 if tier == "thorough" else 20):
            cd = 8
            pts = sorted(rng.sample(range(-cd + 1, 0), min(2 * N - 1, cd - 1)))
            if len(pts) < 2 * N - 1:
                continue
            full = [-cd] + pts + [0]                # staggered: w at even, rho at odd positions
            for vt in (1, 2):
                h = rng.choice([8, 16, 40])
                hc = rng.choice([0, 4, 8])
                sds.append(dict(h=h, hc=hc, cd=cd, vt=vt, stagger="rho", cn=[full[2 * k - 1] for k in range(1, N + 1)]))
                sds.append(dict(h=h, hc=hc, cd=cd, vt=vt, stagger="w", cn=[full[2 * k] for k in range(0, N + 1)]))
    out = []
    for i in range(0, len(cols), 40):
        out.append(dict(cols=cols[i:i + 40], sdepths=sds[i // 40 * 12:(i // 40 + 1) * 12], cls={}))
    return out


def curve_scenarios(tier, rng):
    Ns = [1, 2, 3, 5, 10, 30, 60] if tier == "thorough" else [1, 2, 5, 30]
    ps = []
    for N in Ns:
        for vs, tbs in ((1, [0.0, 0.1, 0.4, 1.0]), (2, [0.01, 1.0, 2.0, 4.0]), (4, [0.01, 1.0, 2.0, 4.0])):
            for ts in ([0.01, 0.1, 1.0, 3.0, 5.0, 7.0, 10.0] if tier == "thorough" else [0.1, 3.0, 7.0]):
                for tb in (tbs if tier == "thorough" else tbs[1::2]):
                    for vt in (1, 2):
                        h = rng.choice([10.0, 100.0, 5000.0] if N > 1 else [10.0, 100.0])
                        hc = rng.choice([0.0, 1.0, 5.0]) if vt == 1 else rng.choice([1.0, 5.0, 20.0, 250.0])
                        ps.append(dict(N=N, theta_s=ts, theta_b=tb, Vstretching=vs, Vtransform=vt, h=h, hc=hc, fromfile=rng.random() < 0.5))
    rng.shuffle(ps)
    return [dict(params=ps[i:i + 12], cls={}) for i in range(0, len(ps), 12)]


DRIVERS = {"vert-exact": ("harness.checks.c12", "exact_trace", "VertTrace", FAMILY),
           "vert-curves": ("harness.checks.c12", "curve_trace", "VertTrace", FAMILY)}


def run(tier, seed):
    rep = Report("C12", tier, seed)
    rep.add_proof("LookupIdentityAll")
    rng = random.Random(seed)
    rep.add_mc("MC_Vertical", tlc.model_check("MC_Vertical", "MC_Vertical.cfg" if tier == "thorough" else "MC_Vertical_quick.cfg",
                                              must_take=["GrowCol", "Probe", "GrowC"]))
    s1 = exact_scenarios(tier, rng)
    t1 = pmap("harness.checks.c12", "exact_trace", s1)
    rep.add_tv("vert-exact", "VertTrace", s1, t1, tlc.validate_traces("VertTrace", t1), family=FAMILY)
    s2 = curve_scenarios(tier, rng)
    t2 = pmap("harness.checks.c12", "curve_trace", s2)
    rep.add_tv("vert-curves", "VertTrace", s2, t2, tlc.validate_traces("VertTrace", t2), family=FAMILY)
    rep.nontrivial = sum(len(s["cols"]) for s in s1) + sum(len(s["params"]) for s in s2)
    rep.rule = ("exact: strictly increasing integer level columns (2-4 levels, half-metre units) x every depth from below the bottom level "
                "to above the top, rational stretching vectors on eighths x h x hc x both transforms; curves: parameter lattice N x theta_s x "
                "theta_b x Vstretching x Vtransform x h (+ a shallower neighbour cell), Grid built from a file or from Vinfo; non-trivial = "
                "distinct columns + distinct parameter points")
    rep.assumptions = ["transcendental curves are checked on a parameter lattice only (DESIGN 7)", "hc <= h for the generated set-ups",
                       "with a single level (N = 1) both levels of the pair are that level"]
    return rep
