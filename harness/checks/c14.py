"""C14 - particles are independent; runs are reproducible and time-shift invariant.
TV: every run of a family (base, repeat, single release rows removed, rows permuted, all times shifted by whole steps) is
validated by LadimTrace on its own; the relation between the outputs is decided by TLC with PairTrace (per-particle
trajectories by birth key, bit-for-bit digests).  MC: MC_Ladim (cached per-particle forcing stays aligned)."""
from __future__ import annotations

import random

from .. import tlc
from ..common import Report, pmap
from ..e2e import base_scenario
from ..pairs import permuted, shifted, without_rows

FAMILY_P = r"^(pair|same|shift|subset)\."
FAMILY_L = r"^$"          # single runs are validated for the evidence; their clauses belong to other properties
DRIVERS = {"pairs-independence": ("harness.checks.c14", "pair_only", "PairTrace", FAMILY_P),
           "pairs-lonlat-release": ("harness.checks.c14", "pair_only", "PairTrace", FAMILY_P)}


def family(rng, k):
    from ..e2e import uniform_fm
    if k % 3 == 1:
        # strong uniform flow across cells of different size, several release times: a particle's grid spacing must be its own
        base = base_scenario(rng, hasscal=False, ntimes=3, nsteps=rng.randrange(6, 9), layout="sparse", ops=rng.choice([1, 2]), nkill=0, nfreeze=0,
                             nland=0, varmetric=True, fm=uniform_fm(rng), dt=64, cont=False, allow_subgrid=False)
        farms = [r["id"] for r in base["rows"]]
        from ..world import node
        u, v = node(base["fm"], 0, 1, 0, 0, 0), node(base["fm"], 0, 1, 0, 0, 1)
        imax, jmax = base["imax"], base["jmax"]
        # put the change of cell size just downstream of the release positions, so that every particle crosses it early
        if abs(u) >= abs(v):
            ci = imax // 2
            base["dxarr"] = [[128 if i < ci else 256 for i in range(imax)] for _ in range(jmax)]
            base["dyarr"] = [[128] * imax for _ in range(jmax)]
            for r in base["rows"]:
                r["xf"] = ci - 0.25 - (0.5 if u > 0 else -0.5) - (0.25 if u > 0 else -0.75) * 0 + (0.0 if u > 0 else 0.0)
                r["xf"] = (ci - 0.75) if u > 0 else (ci + 0.25)
        else:
            cj = jmax // 2
            base["dyarr"] = [[128 if j < cj else 256 for _ in range(imax)] for j in range(jmax)]
            base["dxarr"] = [[128] * imax for _ in range(jmax)]
            for r in base["rows"]:
                r["yf"] = (cj - 0.75) if v > 0 else (cj + 0.25)
        for r in base["rows"]:
            r["mult"] = 1
            r["zf"] = 5.0
        base["killfarm"] = []
        variants = [dict(kind="same", sc=base)]
        from ..pairs import without_rows as _wr
        nst = base["cls"]["nsteps"]
        inw = lambda r: 0 <= ((base["start"] - r["t"]) if base["rev"] else (r["t"] - base["start"])) < nst * base["dt"]
        for f in farms[1:3]:
            if any(inw(r) for r in base["rows"] if r["id"] != f):      # the remaining set-up must still release something
                variants.append(dict(kind="subset", sc=_wr(base, {f}), deleted=[f]))
        return dict(base=base, variants=variants, cls=dict(rev=base["rev"], layout="sparse", wfield=False, kills=0, varmetric=True))
    base = base_scenario(rng, hasscal=True, ntimes=rng.choice([2, 3]), nsteps=rng.randrange(4, 9), layout="sparse" if rng.random() < 0.8 else "dense",
                         ops=rng.choice([1, 2, 2, 3]), nkill=0, nfreeze=0, nland=rng.randrange(0, 5), varmetric=rng.random() < 0.4,
                         fm=dict(a=rng.randrange(0, 6), b=rng.randrange(0, 6), c=rng.randrange(5, 40), d=rng.randrange(0, 20), e=rng.randrange(0, 3)))
    base["H"] = [[rng.choice([40, 80]) for _ in range(base["imax"])] for _ in range(base["jmax"])]
    for r in base["rows"]:
        r["mult"] = max(1, r["mult"])
        r["zf"] = float(rng.choice([5, 10, 15, 20, 25, 35]))
    nsteps = base["cls"]["nsteps"]
    farms = [r["id"] for r in base["rows"]]
    # deaths of whole release rows right before output steps (death followed by an output step: the rare composition)
    base["killfarm"] = sorted([max(0, rng.choice(range(0, nsteps, base["ops"])) + base["ops"] - 1) % nsteps, rng.choice(farms)] for _ in range(rng.choice([1, 2])))
    if k % 4 == 0:
        base["wfield"] = True
    variants = [dict(kind="same", sc=base)]
    from ..e2e import sim2t  # noqa: F401
    dur = nsteps * base["dt"]
    inwin = lambda r: 0 <= ((base["start"] - r["t"]) if base["rev"] else (r["t"] - base["start"])) < dur or base["cont"]
    # remove the rows whose particles die (their absence must not change anybody else), then a random other row
    killed = [f for _, f in base["killfarm"]]
    cand = list(dict.fromkeys(killed + rng.sample(farms, len(farms))))[: min(3, len(farms) - 1)]
    for f in cand if len(farms) > 1 else []:
        if not any(inwin(r) for r in base["rows"] if r["id"] != f):
            continue
        tf = next(r["t"] for r in base["rows"] if r["id"] == f)
        if base["cont"] and sum(1 for r in base["rows"] if r["t"] == tf) < 2:
            continue          # removing a whole file time changes the continuous schedule of the previous group (not an independence question)
        b = without_rows(base, {f})
        variants.append(dict(kind="subset", sc=b, deleted=[f]))
    variants.append(dict(kind="subset", sc=permuted(base, rng), deleted=[]))
    sh = rng.choice([-3, 2, 5])
    variants.append(dict(kind="shift", sc=shifted(base, sh), shift=sh * base["dt"]))
    return dict(base=base, variants=variants, cls=dict(rev=base["rev"], layout=base["layout"], wfield=bool(base.get("wfield")), kills=len(base["killfarm"])))


def ll_family(rng):
    """release rows given by longitude / latitude on a curved grid: the conversion of a row to grid coordinates must not depend on
    the other rows of the table (the rows are converted in one call)"""
    from ..pairs import without_rows as _wr
    base = base_scenario(rng, hasscal=False, ntimes=rng.choice([2, 3]), nsteps=rng.randrange(3, 7), layout="sparse", ops=rng.choice([1, 2]), nkill=0, nfreeze=0,
                         nland=0, varmetric=False, cont=False, allow_subgrid=rng.random() < 0.4)
    while True:      # a regular curvilinear grid (cells never collapse), as in C16's grid scenarios
        geo = (rng.randrange(12, 24), rng.randrange(-6, 7), rng.randrange(8, 16), rng.randrange(-5, 6), rng.randrange(0, 3))
        if abs(geo[1]) + 3 < geo[2] and abs(geo[3]) + 3 < geo[0]:
            break
    base["geo"] = list(geo)
    base["llrelease"] = True
    for r in base["rows"]:
        r["mult"] = 1
        r["xf"] += rng.randrange(-20, 21) / 1024.0          # off the lattice: the inversion has to iterate
        r["yf"] += rng.randrange(-20, 21) / 1024.0
    base["killfarm"] = []
    farms = [r["id"] for r in base["rows"]]
    variants = [dict(kind="same", sc=base)]
    nst = base["cls"]["nsteps"]
    inw = lambda r: 0 <= ((base["start"] - r["t"]) if base["rev"] else (r["t"] - base["start"])) < nst * base["dt"]
    for f in farms[:3]:
        if any(inw(r) for r in base["rows"] if r["id"] != f):
            variants.append(dict(kind="subset", sc=_wr(base, {f}), deleted=[f]))
    return dict(base=base, variants=variants, cls=dict(rev=base["rev"], layout="sparse", wfield=False, kills=0, llrelease=True))


def pair_only(sc):
    from ..pairs import run_pair
    return run_pair(sc)["pair"]


def run_family(sc):
    from ..pairs import run_pair
    return run_pair(sc)


def run(tier, seed):
    rep = Report("C14", tier, seed)
    rep.add_mc("MC_Ladim", tlc.model_check("MC_Ladim", "MC_Ladim.cfg" if tier == "thorough" else "MC_Ladim_quick.cfg", must_take=["Call", "AddKill"], timeout=3000),
               note="Independent, CacheAligned with the per-particle forcing carried in the state")
    rep.add_mc("MC_Ladim_stalecache(control)", tlc.expect_refuted("MC_Ladim", "MC_Ladim_stalecache.cfg", "CacheAligned"),
               note="control: with the per-particle forcing kept in the forcing object (pinned design) TLC refutes CacheAligned")
    rng = random.Random(seed)
    fams = [family(rng, k) for k in range(300 if tier == "thorough" else 70)]
    res = pmap("harness.checks.c14", "run_family", fams)
    pairs = [r["pair"] for r in res]
    singles, owners = [], []
    for f, r in zip(fams, res):
        for t in r["ladim"]:
            singles.append(t)
            owners.append(f)
    rep.add_tv("single-runs", "LadimTrace", owners, singles, tlc.validate_traces("LadimTrace", singles, batch_events=1500), family=FAMILY_L)
    rep.add_tv("pairs-independence", "PairTrace", fams, pairs, tlc.validate_traces("PairTrace", pairs, batch_events=400), family=FAMILY_P)
    # release rows given by longitude / latitude (converted in one call for the whole table): pairs only - where exactly a converted row
    # starts is C16's business (solver tolerance), that it does not depend on the other rows is this property's
    rl = random.Random(seed + 47)
    lf = [ll_family(rl) for _ in range(120 if tier == "thorough" else 30)]
    lp = pmap("harness.checks.c14", "pair_only", lf)
    rep.add_tv("pairs-lonlat-release", "PairTrace", lf, lp, tlc.validate_traces("PairTrace", lp, batch_events=400), family=FAMILY_P)
    rep.nontrivial = sum(len(f["variants"]) for f in fams)
    rep.rule = ("families of runs: base scenario (depth-dependent sheared flow over 40/80 m bathymetry, land, scalar forcing, deaths of whole release rows "
                "scheduled right before output steps, a quarter with vertical advection) + repeat + up to two single-row deletions + a permutation inside "
                "release times + a shift of every time by -3 / 2 / 5 steps; non-trivial = number of (base, variant) pairs")
    rep.assumptions = ["diffusion off", "particles are matched across runs by release row and occurrence number"]
    return rep
