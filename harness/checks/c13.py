"""C13 - clock arithmetic and period spellings.  MC: MC_Clock, MC_Period.  TV: ClockTrace."""
from __future__ import annotations

import datetime
import itertools
import random

from .. import tlc
from ..common import Report, pmap
from ..enc import iso, lat, secs_of

FAMILY = r"^(clock\.(init|nsteps|reference|accepts|refuses_only_invalid)|tick\.|conv\.|units\.|period\.|format\.)"


# ---------------------------------------------------------------- drivers (run in workers, real code)
def clock_trace(sc):
    import numpy as np
    from ladim.timekeeper import TimeKeeper
    c = sc["clock"]
    ev = [dict(ev="setup", kind="clock", clock=c)]
    kw = dict(start=iso(c["start"]), stop=iso(c["stop"]), dt=c["dt"], time_reversal=c["rev"])
    if sc.get("dtform") == "iso":
        kw["dt"] = f"PT{c['dt']}S"
    elif sc.get("dtform") == "list":
        kw["dt"] = [c["dt"], "s"]
    if c["hasref"]:
        kw["reference"] = iso(c["ref"])
    try:
        tk = TimeKeeper(**kw)
    except SystemExit:
        ev.append(dict(ev="refused"))
        return ev
    t = secs_of(tk.time)
    ev.append(dict(ev="made", step=int(tk.step), time=t if t is not None else 0, off=t is None,
                   nsteps=int(tk.Nsteps), ref=secs_of(tk.reference_time)))

    def nc(fn, *a):
        out, off = {}, False
        for u, us in (("s", 1), ("m", 60), ("h", 3600)):
            n, o = lat(fn(*a, u), us)
            out["nc" + u] = n
            off |= o
        return out, off

    ns = int(tk.Nsteps)
    for n in range(-3, ns + 3):
        tt = secs_of(tk.step2time(n))
        isot = secs_of(tk.step2isotime(n))
        d, off = nc(tk.step2nctime, n)
        back = tk.time2step(tk.step2isotime(n)) if isot is not None else -999
        ev.append(dict(ev="conv", n=n, time=tt if tt is not None else 0, iso=isot if isot is not None else 0,
                       back=int(back), off=bool(off or tt is None or isot is None), **d))
    lo, hi = min(c["start"], c["stop"]) - 3, max(c["start"], c["stop"]) + 3
    for t in range(lo, hi + 1):
        ev.append(dict(ev="t2s", t=t, step=int(tk.time2step(iso(t)))))
    for _ in range(ns + 1):
        tk.update()
        tt = secs_of(tk.time)
        d, off = nc(tk.nctime)
        ev.append(dict(ev="tick", step=int(tk.step), time=tt if tt is not None else 0, off=bool(off or tt is None), **d))
    for u in ("s", "m", "h"):
        s = tk.cf_units(u)
        word, _, ref = s.partition(" since ")
        r = secs_of(ref.strip())
        ev.append(dict(ev="units", u=u, word=word, ref=r if r is not None else -10**6))
    return ev


def render(sp):
    import numpy as np
    k = sp["kind"]
    if k == "int":
        return sp["v"]
    if k == "td":
        return datetime.timedelta(seconds=sp["v"])
    if k == "td64":
        return np.timedelta64(sp["v"], sp["u"])
    if k == "iso":
        return "".join(sp["toks"])
    if k == "list":
        out = []
        for it in sp["items"]:
            out.append(it["v"] if it["t"] == "int" else it["v"] + 0.5 if it["t"] == "float" else it["s"] if it["t"] == "str" else None)
        return out
    return sp.get("py")  # "other": None / 1.5


def period_trace(sc):
    import numpy as np
    from ladim.timekeeper import duration2iso, normalize_period
    ev = [dict(ev="setup", kind="periods")]
    for secs in sc.get("durations", []):
        for form in ("td", "td64"):
            try:
                txt = duration2iso(datetime.timedelta(seconds=secs) if form == "td" else np.timedelta64(secs, "s"))
                ev.append(dict(ev="format", secs=secs, toks=list(txt)))
            except Exception as ex:
                ev.append(dict(ev="format", secs=secs, toks=["!", type(ex).__name__]))
    for sp in sc["spellings"]:
        arg = render(sp)
        if sp["kind"] == "other":
            arg = {"none": None, "float": 1.5, "str": "60"}.get(sp.get("what"), None)
            if sp.get("what") == "str":
                sp = dict(kind="other", what="str")
        try:
            r = normalize_period(arg)
            secs = r / np.timedelta64(1, "s")
            ok = float(secs) == int(secs)
            e = dict(ev="period", sp=sp, ok=bool(ok), secs=int(secs) if ok else 0)
        except Exception as ex:  # any refusal
            e = dict(ev="period", sp=sp, ok=False, secs=0, exc=type(ex).__name__)
        ev.append(e)
    return ev


# ---------------------------------------------------------------- scenario spaces
def clocks(tier, rng):
    tmax = 12 if tier == "thorough" else 8
    out = []
    for start, stop in itertools.product(range(0, tmax + 1), repeat=2):
        for dt in (1, 2, 3, 5):
            for rev in (False, True):
                for hasref, ref in ((False, 0), (True, -3), (True, 4)):
                    out.append(dict(clock=dict(start=start, stop=stop, dt=dt, rev=rev, ref=ref, hasref=hasref),
                                    cls=dict(rev=rev)))
    # larger, realistic numbers: minutes / hours / days apart, dt 60..3600, reference decades away
    for _ in range(400 if tier == "thorough" else 120):
        dt = rng.choice([30, 60, 300, 600, 900, 3600])
        a = rng.randrange(0, 40 * 86400)
        b = a + rng.randrange(0, 12) * dt + rng.choice([0, 0, 1, dt // 2, dt - 1])
        rev = rng.random() < 0.5
        start, stop = (b, a) if rev else (a, b)
        if start == stop:
            rev = False
        hasref = rng.random() < 0.7
        out.append(dict(clock=dict(start=start, stop=stop, dt=dt, rev=rev, hasref=hasref,
                                   ref=rng.choice([0, -86400 * 365, 86400 * 3, a - 7200])),
                        dtform=rng.choice(["int", "iso", "list"]), cls=dict(rev=rev)))
    return out


def spellings(tier, rng):
    alpha = ["P", "T", "H", "M", "S", "0", "1", "7", "x", "h"]
    maxlen = 5 if tier == "thorough" else 4
    sps = []
    for n in range(0, maxlen + 1):
        for toks in itertools.product(alpha, repeat=n):
            sps.append(dict(kind="iso", toks=list(toks)))
    # well-formed and nearly well-formed longer spellings
    nums = ["0", "5", "09", "10", "16", "40", "100", "600"]
    for h, m, s in itertools.product([None] + nums[:5], [None] + nums[2:7], [None] + nums[1:]):
        body = (h + "H" if h else "") + (m + "M" if m else "") + (s + "S" if s else "")
        for txt in ("PT" + body, "P" + body, "pt" + body.lower(), "PT" + body + " ", " PT" + body, "PT" + body[::-1],
                    "PT" + body.replace("H", "H-"), "PT" + body.replace("M", ".5M"), "T" + body, "PT" + body + "S"):
            sps.append(dict(kind="iso", toks=list(txt)))
    for v in (0, 1, 30, 59, 60, 90, 600, 3600, 86400, 100000):
        sps += [dict(kind="int", v=v), dict(kind="td", v=v), dict(kind="td64", v=v, u="s")]
        for u in ("s", "m", "h"):
            if v <= 3600:
                sps.append(dict(kind="td64", v=v, u=u))
                sps.append(dict(kind="list", items=[dict(t="int", v=v, s=""), dict(t="str", v=0, s=u)]))
        for u in ("min", "H", "", "sec", "hours", "S"):
            sps.append(dict(kind="list", items=[dict(t="int", v=v, s=""), dict(t="str", v=0, s=u)]))
        sps.append(dict(kind="list", items=[dict(t="float", v=v, s=""), dict(t="str", v=0, s="h")]))
        sps.append(dict(kind="list", items=[dict(t="str", v=0, s=str(v)), dict(t="str", v=0, s="h")]))
        sps.append(dict(kind="list", items=[dict(t="int", v=v, s="")]))
        sps.append(dict(kind="list", items=[dict(t="int", v=v, s=""), dict(t="str", v=0, s="h"), dict(t="int", v=1, s="")]))
        sps.append(dict(kind="list", items=[dict(t="str", v=0, s="h"), dict(t="int", v=v, s="")]))
    sps.append(dict(kind="list", items=[]))
    for w in ("none", "float", "str"):
        sps.append(dict(kind="other", what=w))
    rng.shuffle(sps)
    durs = [0, 1, 59, 60, 61, 3599, 3600, 3661, 86399, 86400, 86401, 90061, 172800, 1000000] + [rng.randrange(0, 3 * 86400) for _ in range(60)]
    return [dict(spellings=sps[i:i + 250], durations=durs if i == 0 else [], cls={}) for i in range(0, len(sps), 250)]


DRIVERS = {"clock": ("harness.checks.c13", "clock_trace", "ClockTrace", FAMILY),
           "period": ("harness.checks.c13", "period_trace", "ClockTrace", FAMILY)}


def run(tier, seed):
    rep = Report("C13", tier, seed)
    rep.add_proof("ClockInverseAll")
    rng = random.Random(seed)
    rep.add_mc("MC_Clock", tlc.model_check("MC_Clock", "MC_Clock.cfg" if tier == "thorough" else "MC_Clock_quick.cfg",
                                           must_take=["Tick"]))
    rep.add_mc("MC_Period", tlc.model_check("MC_Period", "MC_Period.cfg" if tier == "thorough" else "MC_Period_quick.cfg",
                                            must_take=["Grow"]))
    scs = clocks(tier, rng)
    traces = pmap("harness.checks.c13", "clock_trace", scs)
    rep.add_tv("clock", "ClockTrace", scs, traces, tlc.validate_traces("ClockTrace", traces), family=FAMILY)
    sps = spellings(tier, rng)
    ptr = pmap("harness.checks.c13", "period_trace", sps)
    rep.add_tv("period", "ClockTrace", sps, ptr, tlc.validate_traces("ClockTrace", ptr, batch_events=3000), family=FAMILY)
    rep.nontrivial = sum(1 for s in scs if s["clock"]["start"] != s["clock"]["stop"]) + sum(len(s["spellings"]) for s in sps)
    rep.rule = ("clocks: every (start, stop, dt, direction, reference) of the bound plus random large ones, non-trivial = "
                "start != stop; spellings: every token string up to the length bound plus structured near-misses, "
                "each spelling distinct by construction")
    rep.assumptions = ["ISO strings are parsed back to integer seconds by numpy in the harness (unit-free encoding)",
                       "units d/D/W/ms of [value, unit] are left out (documentation and numpy disagree, DESIGN 4)"]
    return rep
