"""C11 - random-walk diffusion.  Decided part: the deterministic transformation and the draw-consumption structure
(TrackTrace with a scripted generator).  Residual (distribution of numpy's generator): seeded statistics, exploration level."""
from __future__ import annotations

import random

from .. import tlc
from ..common import Report, pmap
from ..trackdrv import scenario

FAMILY = r"^track\.every_step|^trace\.incomplete|^diff\.|^vert\.reflect|^run\.crashed|^lattice|^setup\.valid|^stat\."
DRIVERS = {"tracker-diffusion": ("harness.trackdrv", "track_trace", "TrackTrace", FAMILY),
           "tracker-statistics": ("harness.checks.c11", "stat_trace", "StatTrace", FAMILY)}


def stat_trace(sc):
    """Seeded statistics of a point cloud in still water through the real Tracker (real numpy generator, seeded)."""
    import numpy as np
    from ladim.tracker import Tracker

    class G:
        xmin, xmax, ymin, ymax = 0.0, 1000.0, 0.0, 1000.0
        def metric(self, X, Y): return np.full(len(X), sc["dx"]), np.full(len(X), sc["dx"])
        def ingrid(self, X, Y): return np.ones(len(X), bool)
        def atsea(self, X, Y): return np.ones(len(X), bool)
        def depth(self, X, Y): return np.full(len(X), 1.0e6)

    class T:
        dt = np.timedelta64(sc["dt"], "s")

    class S(dict):
        def __getattr__(self, k): return self[k]

    n = sc["n"]
    st = S(X=np.full(n, 500.0), Y=np.full(n, 500.0), Z=np.full(n, 5.0e5), alive=np.ones(n, bool), active=np.ones(n, bool))
    ev = [dict(ev="setup", n=n, nsteps=sc["nsteps"], dt=sc["dt"], dx=sc["dx"], D1000=int(round(sc["D"] * 1000)), Dz1000=int(round(sc["Dz"] * 1000)))]
    try:
        tr = Tracker(advection="", diffusion=sc["D"], vertdiff=sc["Dz"], modules=dict(time=T(), state=st, grid=G(), forcing=None))
        tr.rng = np.random.default_rng(sc["seed"])
        x0, y0, z0 = st["X"].copy(), st["Y"].copy(), st["Z"].copy()
        px = py = None
        lag = 0.0
        for k in range(sc["nsteps"]):
            bx, by = st["X"].copy(), st["Y"].copy()
            tr.update()
            dxs, dys = (st["X"] - bx) * sc["dx"], (st["Y"] - by) * sc["dx"]
            if px is not None:
                lag += float(np.mean(dxs * px))
            px, py = dxs, dys
        X = (st["X"] - x0) * sc["dx"]
        Y = (st["Y"] - y0) * sc["dx"]
        Z = st["Z"] - z0
        # normalised statistics in units of 1/1000 of the expected standard error (integers for TLC)
        t = sc["nsteps"] * sc["dt"]
        vx, vz = 2 * sc["D"] * t, 2 * sc["Dz"] * t
        def zscore_mean(a, var): return int(round(1000 * float(np.mean(a)) / np.sqrt(var / n))) if var > 0 else int(round(1e6 * float(np.abs(a).max())))
        def zscore_var(a, var): return int(round(1000 * (float(np.var(a)) - var) / (var * np.sqrt(2.0 / n)))) if var > 0 else 0
        cov = int(round(1000 * float(np.mean(X * Y)) / (vx / np.sqrt(n)))) if vx > 0 else 0
        ev.append(dict(ev="stat", mx=zscore_mean(X, vx), my=zscore_mean(Y, vx), mz=zscore_mean(Z, vz), vx=zscore_var(X, vx), vy=zscore_var(Y, vx),
                       vz=zscore_var(Z, vz), cxy=cov, lag=int(round(1000 * lag / max(1, sc["nsteps"] - 1) / (2 * sc["D"] * sc["dt"] / np.sqrt(n)))) if sc["D"] > 0 else 0))
    except Exception as e:
        ev.append(dict(ev="crash", what=f"{type(e).__name__}: {str(e)[:100]}"))
    return ev


def scenarios(tier, seed):
    rng = random.Random(seed)
    out = []
    for k in range(1200 if tier == "thorough" else 300):
        mode = k % 5
        out.append(scenario(rng, horiz_diff=mode in (0, 1, 2), vert_diff=mode in (1, 3), vadv=(k % 7 == 3), advect=mode in (2, 4) or rng.random() < 0.3,
                            land=False, flat=True))
    return out


def run(tier, seed):
    rep = Report("C11", tier, seed, level="other")
    rep.add_mc("MC_Walk", tlc.model_check("MC_Walk", "MC_Walk.cfg" if tier == "thorough" else "MC_Walk_quick.cfg", workers=2),
               note="exact expectations over ALL assignments of +-1 draws to 2 particles x 3 directions x NS steps: zero mean, variance NS step^2 per "
                    "direction, no covariance between directions or particles, for both accepted block assignments")
    rep.add_mc("MC_Walk_shared(control)", tlc.expect_refuted("MC_Walk", "MC_Walk_shared.cfg", "IndepXY"),
               note="control: both horizontal directions reading the same block of draws is refuted (covariance)")
    scs = scenarios(tier, seed)
    traces = pmap("harness.trackdrv", "track_trace", scs)
    rep.add_tv("tracker-diffusion", "TrackTrace", scs, traces, tlc.validate_traces("TrackTrace", traces), family=FAMILY)
    rng = random.Random(seed + 1)
    ss = [dict(seed=seed * 100 + k, n=100000, nsteps=rng.choice([1, 3, 8]), dt=rng.choice([60, 600]), dx=rng.choice([100.0, 800.0]),
               D=rng.choice([0.01, 1.0, 100.0]), Dz=rng.choice([0.0, 1e-3, 0.1]), cls={}) for k in range(24 if tier == "thorough" else 8)]
    ss += [dict(seed=seed, n=2000, nsteps=3, dt=60, dx=100.0, D=0.0, Dz=0.0, cls={})]
    st = pmap("harness.checks.c11", "stat_trace", ss)
    rep.add_tv("tracker-statistics", "StatTrace", ss, st, tlc.validate_traces("StatTrace", st), family=FAMILY)
    rep.nontrivial = sum(len(s["steps"]) * len(s["x"]) for s in scs if s["cls"]["hdiff"] or s["cls"]["vdiff"])
    rep.rule = ("tracker steps with horizontal and/or vertical diffusion for (D, dt) over four orders of magnitude with 2 D dt a perfect square, injected "
                "injective lattice draws, with and without advection, D and Dz different when both on, a fifth with both off; non-trivial = "
                "particle-steps with a diffusion coefficient switched on; plus seeded 10^5-particle clouds for the distributional residue")
    rep.notes["explanation"] = ("The code's contribution to C11 - displacement = sqrt(2 D dt) xi / dx per direction, sqrt(2 Dz dt) xi in depth, one fresh "
                               "standard-normal draw per particle x direction x step, none when the coefficients are zero - is decided exactly by trace "
                               "validation against Tracker.tla with a scripted generator. That numpy's generator is standard normal and independent is a "
                               "distributional fact outside TLA+; it is covered by seeded statistics (mean, variance, U-V covariance, lag-1) inside 6 sigma bands "
                               "evaluated by TLC (StatTrace), which is exploration, not model checking.")
    rep.assumptions = ["the tracker obtains its randomness from self.rng (normal / standard_normal); another source would show up as displacements the injected draws cannot explain"]
    return rep
