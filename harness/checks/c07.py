"""C07 - every scheduled output time is written.  MC: MC_OutFile.  TV: exhaustive over (run length, period, split,
layout, particle variables, direction) through ladim.main.main with recording plug-ins (LadimTrace)."""
from __future__ import annotations

import itertools
import random

from .. import tlc
from ..common import Report, pmap
from ..e2e import base_scenario

FAMILY = r"^files\.(count|sizes|numbering|names|closed_once)|^run\.crashed|^close\.after|^timer\.within_run"
DRIVERS = {"e2e-schedule": ("harness.e2e", "run_e2e", "LadimTrace", FAMILY)}


def scenarios(tier, seed):
    rng = random.Random(seed)
    big = tier == "thorough"
    out = []
    for nsteps, ops, numrec in itertools.product(range(1, (12 if big else 8) + 1), range(1, (5 if big else 4) + 1), range(0, (4 if big else 3) + 1)):
        combos = list(itertools.product(["sparse", "dense"], [False, True], [False, True]))
        if not big:
            combos = rng.sample(combos, 3)
        for layout, pvars, rev in combos:
            out.append(base_scenario(rng, nsteps=nsteps, ops=ops, numrec=numrec, layout=layout, pvars=pvars, rev=rev,
                                     nland=0, ntimes=1, nkill=rng.choice([0, 1]), ncut=rng.choice([0, 1])))
    # the configured file name: stems with digits and underscores, with and without their own counter (start, width; also
    # numbers that outgrow the width) - the names on disk must be those that module FileName prescribes
    rl = random.Random(seed + 5)
    for sc in out:
        if rl.random() < 0.6:
            stem = rl.choice(["out", "o", "run1", "exp_10", "y2020", "a_b", "x_1_2", "n7_", "q__", "t00", "_", "r1_0_1"])
            if rl.random() < 0.55:
                start, width = rl.choice([(0, 3), (4, 2), (9, 1), (8, 1), (99, 2), (98, 2), (1, 4), (10, 2), (7, 3), (0, 1), (1, 3), (100, 3)])
                stem += "_%0*d" % (width, start)
            sc["outname"] = stem + ".nc"
    return out


def run(tier, seed):
    rep = Report("C07", tier, seed)
    rep.add_proof("ColdRecordsInWindow")
    rep.add_mc("MC_OutFile", tlc.model_check("MC_OutFile", "MC_OutFile.cfg" if tier == "thorough" else "MC_OutFile_quick.cfg", must_take=["Step", "Finish"]))
    rep.add_mc("MC_Ladim(liveness)", tlc.model_check("MC_Ladim", "MC_Ladim_live.cfg", must_take=["Call"], timeout=1800),
               note="FairSpec (weak fairness, no state constraint): every run ends (Terminates) and has then written exactly ceil(nsteps / period) records (AllRecordsWritten)")
    rep.add_mc("MC_FileName", tlc.model_check("MC_FileName", "MC_FileName.cfg" if tier == "thorough" else "MC_FileName_quick.cfg", must_take=["Grow"]))
    scs = scenarios(tier, seed)
    traces = pmap("harness.e2e", "run_e2e", scs)
    rep.add_tv("e2e-schedule", "LadimTrace", scs, traces, tlc.validate_traces("LadimTrace", traces, batch_events=1500), family=FAMILY)
    rep.nontrivial = len({(s["cls"]["nsteps"], s["ops"], s["numrec"], s["layout"], s["pvars"], s["rev"]) for s in scs
                          if s["cls"]["nsteps"] % s["ops"] != 0 or s["numrec"] > 0})
    rep.extra["exhaustive"] = True
    rep.rule = ("every (nsteps, ops, numrec) of the bound x {sparse, dense} x {particle variables} x {forward, reversed} "
                "(quick: 3 of the 8 combinations per triple); non-trivial = distinct combinations where the period does not divide the run or output is split")
    rep.extra["file_name_stems"] = len({s.get("outname", "out.nc") for s in scs})
    rep.assumptions = ["cold start; the warm-start schedule is model-checked here and trace-validated under C08"]
    return rep
