"""C08 - restart transparency.  MC: MC_OutFile (warm schedule, WarmFinalRecord).  TV: the uninterrupted split run and a
warm-started run from every completed output file are validated by LadimTrace (the restarted run's specification state
is initialised from the uninterrupted run's own recorded history), and TLC decides the restart relation (PairTrace)."""
from __future__ import annotations

import random

from .. import tlc
from ..common import Report, pmap
from ..e2e import base_scenario

FAMILY_P = r"^(pair|restart)\."
FAMILY_L = r"."          # every clause of a *restarted* run belongs to C08 (the uninterrupted run is the reference)
DRIVERS = {"pairs-restart": ("harness.checks.c08", "pair_only", "PairTrace", FAMILY_P),
           "restarted-runs": ("harness.checks.c08", "restarted_only", "LadimTrace", FAMILY_L)}


def family(rng):
    nsteps = rng.randrange(4, 11)
    ops = rng.choice([1, 2, 2, 3])
    base = base_scenario(rng, rev=False, nsteps=nsteps, ops=ops, numrec=rng.choice([1, 2, 2, 3]), layout="sparse", pvars=rng.random() < 0.6,
                         hasscal=rng.random() < 0.5, ntimes=rng.choice([2, 3]), nfreeze=0, nkill=0, allow_subgrid=rng.random() < 0.3)
    farms = [r["id"] for r in base["rows"]]
    base["killfarm"] = sorted([rng.randrange(0, nsteps), rng.choice(farms)] for _ in range(rng.choice([0, 1, 2])))
    if rng.random() < 0.3:          # a time-typed instance variable (time stamp of the release row) written with the records and restored
        base["stampvar"] = True
    if rng.random() < 0.4:          # particles put to rest by the IBM; the activity flag is saved with the records and restored
        base["out_active"] = True
        base["freeze"] = sorted([rng.randrange(0, nsteps), rng.randrange(0, 6)] for _ in range(rng.choice([1, 2, 3])))
    # a third of the families: the restarted run writes the DENSE layout (column = identifier, while the restored state holds the living only)
    dense = (len(base["rows"]) + nsteps + ops + base["numrec"]) % 3 == 0
    return dict(base=base, dense_restart=dense, cls=dict(cont=base["cont"], adv=base["adv"], ops_divides=nsteps % ops == 0, numrec=base["numrec"], dense_restart=dense))


def family_newest_dies(rng):
    """directed: discrete release, restart files WITHOUT particle variables, and the newest particles die soon after their
    release - before, or inside, the file the run is restarted from; later release times must still get fresh identifiers"""
    nsteps = rng.randrange(6, 11)
    ops = rng.choice([1, 1, 2])
    base = base_scenario(rng, rev=False, nsteps=nsteps, ops=ops, numrec=rng.choice([1, 2, 2, 3]), layout="sparse", pvars=rng.random() < 0.2,
                         hasscal=False, ntimes=3, cont=False, nfreeze=0, nkill=0, allow_subgrid=False, exact_stop=True)
    for r in base["rows"]:
        r["mult"] = max(1, r["mult"])
    times = sorted({r["t"] for r in base["rows"]})
    kf = []
    for t in times[:-1]:
        if rng.random() < 0.8:
            s = (t - base["start"]) // base["dt"]
            if 0 <= s < nsteps:
                kf += [[s + rng.choice([0, 0, 1, 2]), r["id"]] for r in base["rows"] if r["t"] == t]
    base["killfarm"] = sorted(k for k in kf if k[0] < nsteps)
    dense = (len(base["rows"]) + nsteps + ops + base["numrec"]) % 3 == 0
    return dict(base=base, dense_restart=dense,
                cls=dict(cont=False, adv=base["adv"], ops_divides=nsteps % ops == 0, numrec=base["numrec"], directed="newest_dies", pvars=base["pvars"], dense_restart=dense))


def run_family(sc):
    from ..pairs import restart_family
    return restart_family(sc)


def pair_only(sc):
    return run_family(sc)["pair"]


def restarted_only(sc):
    r = run_family(sc)["ladim"]
    k = 1 + sc.get("restart_k", 0)
    return r[k] if len(r) > k else r[-1]


def run(tier, seed):
    rep = Report("C08", tier, seed)
    rep.add_proof("WarmRecordsInWindow")
    rep.add_mc("MC_OutFile", tlc.model_check("MC_OutFile", "MC_OutFile.cfg" if tier == "thorough" else "MC_OutFile_quick.cfg", must_take=["Step", "Finish"]),
               note="warm = TRUE: records at steps ops, 2 ops, ... <= Nsteps (WarmFinalRecord)")
    rep.add_mc("MC_Ladim", tlc.model_check("MC_Ladim", "MC_Ladim.cfg" if tier == "thorough" else "MC_Ladim_quick.cfg", must_take=["Restart", "Continue"], timeout=3000),
               note="RestartEq: a warm start from every record continues as the uninterrupted run")
    rep.add_mc("MC_Ladim_maxpid(control)", tlc.expect_refuted("MC_Ladim", "MC_Ladim_maxpid.cfg", "RestartEq"),
               note="control: restoring the identifier counter from the highest pid on file (pinned design) is refuted")
    rep.add_mc("MC_Ladim(dense)", tlc.model_check("MC_Ladim", "MC_Ladim_dense.cfg", must_take=["Restart", "Continue"], timeout=1800),
               note="a restarted run that writes the dense layout: columns are identifiers although the restored list holds the living particles only")
    rep.add_mc("MC_Ladim_densebypos(control)", tlc.expect_refuted("MC_Ladim", "MC_Ladim_densebypos.cfg", "DenseAddressing"),
               note="control: the pinned addressing by list position is refuted after a warm start (D32)")
    rng = random.Random(seed)
    fams = [family(rng) for _ in range(400 if tier == "thorough" else 90)]
    rd = random.Random(seed + 17)
    fams += [family_newest_dies(rd) for _ in range(160 if tier == "thorough" else 40)]
    res = pmap("harness.checks.c08", "run_family", fams)
    ref = [r["ladim"][0] for r in res]
    rep.add_tv("uninterrupted-runs", "LadimTrace", fams, ref, tlc.validate_traces("LadimTrace", ref, batch_events=1500), family=r"^$")
    rs, owners = [], []
    for f, r in zip(fams, res):
        for k, t in enumerate(r["ladim"][1:]):
            rs.append(t)
            owners.append(dict(f, restart_k=k))      # (replay re-runs the family and validates this restart)
    if len(rs) < len(fams) // 2:
        raise tlc.MachineryError(f"vacuous run: only {len(rs)} restarts were generated")
    rep.add_tv("restarted-runs", "LadimTrace", owners, rs, tlc.validate_traces("LadimTrace", rs, batch_events=1500), family=FAMILY_L)
    pairs = [r["pair"] for r in res]
    rep.add_tv("pairs-restart", "PairTrace", fams, pairs, tlc.validate_traces("PairTrace", pairs, batch_events=400), family=FAMILY_P)
    rep.nontrivial = len(rs)
    rep.extra["restarts"] = len(rs)
    rep.rule = ("uninterrupted split runs (continuous or discrete release, deaths of release rows by the IBM and at the boundary, IBM age, scalar forcing, EF/RK2/RK4, "
                "periods that do and do not divide the run, output with and without particle variables, a directed family in which the newest particles die soon "
                "after release) x a warm start from every completed output file (a third of the families: the restarted run writes the dense layout), plus one chained restart from the first file the restarted run completed; "
                "non-trivial = number of restarts")
    rep.assumptions = ["diffusion off; output written as f8 / i4 so 'up to output precision' is equality",
                       "state that an IBM changes (age, release row, activity flag of particles put to rest) is written with the records and named in warm_start.variables: "
                       "what is not in the restart file cannot be restored", "forward time (reversed warm starts are outside LADiM's supported set-ups)",
                       "records with time < stop are compared (a warm-started run also writes a record at the stop time: WarmFinalRecord, DESIGN 4)"]
    return rep
