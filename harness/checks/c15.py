"""C15 - depth stays within the water column.  MC: MC_Tracker (InColumn for all depths / displacements).
TV: TrackTrace on the real Tracker with scripted forcing and scripted random generator, variable bathymetry,
simultaneous horizontal motion."""
from __future__ import annotations

import random

from .. import tlc
from ..common import Report, pmap
from ..trackdrv import scenario

FAMILY = r"^vert\.|^run\.crashed|^lattice|^setup\.valid"
DRIVERS = {"tracker-vertical": ("harness.trackdrv", "track_trace", "TrackTrace", FAMILY)}


def scenarios(tier, seed):
    rng = random.Random(seed)
    out = []
    for k in range(1200 if tier == "thorough" else 300):
        mode = k % 4
        out.append(scenario(rng, horiz_diff=False, vert_diff=mode in (0, 2), vadv=mode in (1, 2), advect=rng.random() < 0.8,
                            land=rng.random() < 0.5, flat=rng.random() < 0.2))
    return out


def run(tier, seed):
    rep = Report("C15", tier, seed)
    rep.add_proof("InColumnAll")
    rep.add_mc("MC_Tracker", tlc.model_check("MC_Tracker", "MC_Tracker.cfg" if tier == "thorough" else "MC_Tracker_quick.cfg",
                                             must_take=["Place", "Step"], timeout=3000))
    scs = scenarios(tier, seed)
    traces = pmap("harness.trackdrv", "track_trace", scs)
    rep.add_tv("tracker-vertical", "TrackTrace", scs, traces, tlc.validate_traces("TrackTrace", traces), family=FAMILY)
    rep.nontrivial = sum(len(s["steps"]) * len(s["x"]) for s in scs if s["cls"]["vdiff"] or s["cls"]["vadv"])
    rep.rule = ("tracker steps with vertical diffusion (injected lattice draws) and/or vertical advection, bathymetry 20/40/80 m varying from "
                "cell to cell, start depths 0, 1/16 m, mid, h - 1/16 m, h, simultaneous horizontal advection (EF/RK2/RK4) across cells, a quarter "
                "of the scenarios with both switched off; non-trivial = particle-steps with vertical motion switched on")
    rep.assumptions = ["velocities are uniform per particle (scripted forcing) so that every displacement is on the lattice",
                       "reflection is compared with the single-reflection formula of the specification (|dz| < h as the property's premise for the bound)"]
    return rep
