"""C15 - depth stays within the water column.  MC: MC_Tracker (InColumn for all depths / displacements).
TV: TrackTrace on the real Tracker with scripted forcing and scripted random generator, variable bathymetry,
simultaneous horizontal motion."""
from __future__ import annotations

import random

from .. import tlc
from ..common import Report, pmap
from ..trackdrv import scenario

FAMILY = r"^track\.every_step|^trace\.incomplete|^vert\.|^run\.crashed|^lattice|^setup\.valid"
FAMILY_E = r"^move\.z_unchanged|^run\.crashed"
DRIVERS = {"e2e-depth-untouched": ("harness.e2e", "run_e2e", "LadimTrace", FAMILY_E),
           "tracker-vertical": ("harness.trackdrv", "track_trace", "TrackTrace", FAMILY),
           "tracker-column-exhaustive": ("harness.trackdrv", "track_trace", "TrackTrace", FAMILY)}


def scenarios(tier, seed):
    rng = random.Random(seed)
    out = []
    for k in range(1200 if tier == "thorough" else 300):
        mode = k % 4
        out.append(scenario(rng, horiz_diff=False, vert_diff=mode in (0, 2), vadv=mode in (1, 2), advect=rng.random() < 0.8,
                            land=rng.random() < 0.5, flat=rng.random() < 0.2))
    return out


def column_scenarios(tier, seed):
    """small-scope exhaustive, the space of MC_Tracker!InColumn executed on the real Tracker: bottom depths 20 / 40 / 80 m x every start
    depth on a 1 m (thorough: 0.5 m) ladder incl. surface and bottom x every vertical displacement |dz| < h on the same ladder"""
    rng = random.Random(seed + 37)
    imax, jmax = 8, 7
    out = []
    for h in (20, 40, 80):
        q = 16 if tier != "thorough" else 8                       # ladder step in 1/16 m (1 m; thorough: 0.5 m)
        zs = list(range(0, h * 16 + 1, q))
        dzs = [d for d in range(-(h * 16) + q, h * 16, q)]
        parts = [(z, d) for z in zs for d in dzs]
        rng.shuffle(parts)
        for c in range(0, len(parts), 6000):
            ch = parts[c:c + 6000]
            n = len(ch)
            out.append(dict(imax=imax, jmax=jmax, M=[[1] * imax for _ in range(jmax)], H=[[h] * imax for _ in range(jmax)], subgrid=None,
                            dt=64, dx=128, dy=128, adv=rng.choice(["", "EF", "RK4"]), D=0.0, Dz=0.0, s16=0, sz16=0, vadv=True,
                            x=[rng.choice([3, 4]) * 256 + rng.choice([-96, 32]) for _ in range(n)], y=[3 * 256 + 32] * n, z=[p[0] for p in ch],
                            active=[True] * n, steps=[dict(un=[0] * n, vn=[0] * n, wn=[p[1] for p in ch])], stream=[1],
                            cls=dict(h=h, hdiff=False, vdiff=False, vadv=True, advect=False, flat=True)))
    return out


def run(tier, seed):
    rep = Report("C15", tier, seed)
    rep.add_proof("InColumnAll")
    rep.add_mc("MC_Tracker", tlc.model_check("MC_Tracker", "MC_Tracker.cfg" if tier == "thorough" else "MC_Tracker_quick.cfg",
                                             must_take=["Place", "Step"], timeout=3000))
    scs = scenarios(tier, seed)
    traces = pmap("harness.trackdrv", "track_trace", scs)
    rep.add_tv("tracker-vertical", "TrackTrace", scs, traces, tlc.validate_traces("TrackTrace", traces), family=FAMILY)
    # complete runs without vertical motion: the tracker leaves the depth alone (all schemes, land, deaths)
    from ..e2e import base_scenario
    re_ = random.Random(seed + 43)
    es = [base_scenario(re_) for _ in range(160 if tier == "thorough" else 40)]
    et = pmap("harness.e2e", "run_e2e", es)
    rep.add_tv("e2e-depth-untouched", "LadimTrace", es, et, tlc.validate_traces("LadimTrace", et, batch_events=1500), family=FAMILY_E)
    cs = column_scenarios(tier, seed)
    ctr = pmap("harness.trackdrv", "track_trace", cs)
    rep.add_tv("tracker-column-exhaustive", "TrackTrace", cs, ctr, tlc.validate_traces("TrackTrace", ctr, batch_events=4, timeout=1800), family=FAMILY)
    rep.extra["column_particle_moves"] = sum(len(s["x"]) for s in cs)
    rep.nontrivial = sum(len(s["steps"]) * len(s["x"]) for s in scs if s["cls"]["vdiff"] or s["cls"]["vadv"])
    rep.rule = ("tracker steps with vertical diffusion (injected lattice draws) and/or vertical advection, bathymetry 20/40/80 m varying from "
                "cell to cell, start depths 0, 1/16 m, mid, h - 1/16 m, h, simultaneous horizontal advection (EF/RK2/RK4) across cells, a quarter "
                "of the scenarios with both switched off; non-trivial = particle-steps with vertical motion switched on")
    rep.assumptions = ["velocities are uniform per particle (scripted forcing) so that every displacement is on the lattice",
                       "reflection is compared with the single-reflection formula of the specification (|dz| < h as the property's premise for the bound)"]
    return rep
