"""C20 - impossible set-ups are refused before the simulation starts.  Fault enumeration: every base scenario x every
single fault through ladim.main.main; validity is decided by TLC from the description of the faulted set-up
(Startup.tla), the outcome is validated by StartupTrace."""
from __future__ import annotations

import copy
import glob
import os
import random
import shutil

from .. import tlc
from ..common import Report, pmap
from ..e2e import base_scenario, config, write_release
from ..enc import iso
from ..forcedrv import write_files
from ..world import partition

FAMILY = r"^startup\.|^setup\.fault"
FAULTS = ["none", "cover_start", "cover_end", "unsorted", "dup_across_files", "no_start", "no_stop", "no_dt", "wrong_side",
          "rel_outside_early", "rel_after", "rel_at_stop", "no_position", "missing_config", "missing_grid", "missing_forcing",
          "missing_release", "missing_warm", "no_section_time", "no_section_forcing", "no_section_tracker", "no_section_release",
          "no_section_output", "subgrid_inverted", "subgrid_too_large", "release_name_empty", "no_position_columns", "subgrid_negative_inverted"]


def sim(sc, t):
    return (sc["start"] - t) if sc["rev"] else (t - sc["start"])


def apply_fault(sc, fault, rng):
    sc = copy.deepcopy(sc)
    sc["fault"] = fault
    sc["cfg_del"], sc["cfg_set"], sc["rm"] = [], [], []
    lo, hi = min(sc["start"], sc["stop"]), max(sc["start"], sc["stop"])
    dt = sc["dt"]
    nsteps = abs(sc["stop"] - sc["start"]) // dt
    if fault == "cover_start":
        sc["ftimes"] = [t for t in sc["ftimes"] if t > lo] or [hi + dt, hi + 2 * dt]
        sc["cuts"] = []
    elif fault == "cover_end":
        sc["ftimes"] = [t for t in sc["ftimes"] if t < hi] or [lo - 2 * dt, lo - dt]
        sc["cuts"] = []
    elif fault == "unsorted":
        k = rng.randrange(0, len(sc["ftimes"]) - 1)
        sc["ftimes"][k], sc["ftimes"][k + 1] = sc["ftimes"][k + 1], sc["ftimes"][k]
    elif fault == "dup_across_files":
        k = rng.randrange(1, len(sc["ftimes"]))
        sc["ftimes"][k] = sc["ftimes"][k - 1]
        sc["cuts"] = [k]
    elif fault in ("no_start", "no_stop", "no_dt"):
        sc["cfg_del"].append(("time", fault[3:]))
    elif fault == "wrong_side":
        sc["start"], sc["stop"] = sc["stop"], sc["start"]
    elif fault == "rel_outside_early":
        # discrete: every row before start; continuous: rows before start are fine there, so put them after stop
        for r in sc["rows"]:
            s = -(1 + rng.randrange(0, 3)) if not sc["cont"] else nsteps + 1 + rng.randrange(0, 3)
            r["t"] = sc["start"] - s * dt if sc["rev"] else sc["start"] + s * dt
    elif fault == "rel_after":
        for r in sc["rows"]:
            s = nsteps + 1 + rng.randrange(0, 3)
            r["t"] = sc["start"] - s * dt if sc["rev"] else sc["start"] + s * dt
    elif fault == "rel_at_stop":
        sc["stop"] = sc["start"] - nsteps * dt if sc["rev"] else sc["start"] + nsteps * dt       # exact stop
        for r in sc["rows"]:
            r["t"] = sc["stop"]
    elif fault == "no_position":
        sc["release_cols"] = ["mult", "release_time", "Y", "Z", "farm", "src"]
    elif fault == "no_position_columns":         # neither X / Y nor lon / lat
        sc["release_cols"] = ["mult", "release_time", "Z", "farm", "src"]
    elif fault == "missing_config":
        sc["rm"].append("config")
    elif fault == "missing_grid":
        sc["cfg_set"].append(("grid", "filename", "no_such_grid.nc"))
    elif fault == "missing_forcing":
        sc["cfg_set"].append(("forcing", "filename", "no_such_forcing_*.nc"))
    elif fault == "missing_release":
        sc["cfg_set"].append(("release", "release_file", "no_such_release.rls"))
    elif fault == "release_name_empty":          # the release file is named "" (a mandatory file that does not exist)
        sc["cfg_set"].append(("release", "release_file", ""))
    elif fault == "missing_warm":
        sc["cfg_set"].append(("warm_start", "filename", "no_such_restart.nc"))
    elif fault.startswith("no_section_"):
        sc["cfg_del"].append((fault[len("no_section_"):], None))
    elif fault == "subgrid_inverted":
        sc["subgrid"] = [5, 3, 1, 4]
    elif fault == "subgrid_negative_inverted":   # limits counted from the upper end that cross over
        sc["subgrid"] = [sc["imax"] - 3, -(sc["imax"] - 2), 1, -2]
    elif fault == "subgrid_too_large":
        sc["subgrid"] = [1, sc["imax"], 1, sc["jmax"] - 1]
    return sc


def describe(sc):
    """the faulted set-up as data for Startup!Valid (pure re-encoding of what was written to disk)"""
    has = dict(start=True, stop=True, dt=True)
    sections = dict(time=True, forcing=True, tracker=True, release=True, output=True)
    for sec, key in sc["cfg_del"]:
        if key is None:
            sections[sec] = False
        else:
            has[key] = False
    files = dict(config="config" not in sc["rm"], grid=True, forcing=True, release=True, warm=True)
    for sec, key, val in sc["cfg_set"]:
        files[{"grid": "grid", "forcing": "forcing", "release": "release", "warm_start": "warm"}[sec]] = False
    frames = []
    for a, b in partition(len(sc["ftimes"]), sc["cuts"]):
        frames += sc["ftimes"][a:b]
    sub = sc["subgrid"]
    cols = sc.get("release_cols")
    return dict(clock=dict(start=sc["start"], stop=sc["stop"], dt=sc["dt"], rev=sc["rev"]), has=has,
                cfg=dict(start=sc["start"], stop=sc["stop"], dt=sc["dt"], rev=sc["rev"], cont=sc["cont"], freq=sc["freq"]),
                frames=frames, table=[dict(t=r["t"], mult=r["mult"]) for r in sc["rows"]], haspos=not cols or ("X" in cols and "Y" in cols),
                files=files, sections=sections,
                sub=dict(given=bool(sub), i0=sub[0] if sub else 0, i1=sub[1] if sub else 0, j0=sub[2] if sub else 0, j1=sub[3] if sub else 0,
                         imax=sc["imax"], jmax=sc["jmax"]))


def fault_trace(sc):
    import gc
    import logging

    import numpy as np
    import verif_rec as R
    import yaml
    from ladim.main import main
    from netCDF4 import Dataset
    work = tlc.scratch("lv_c20_")
    ev = [dict(ev="setup", fault=sc["fault"], d=describe(sc))]
    try:
        write_files(sc, work)
        if sc.get("release_cols"):
            with open(os.path.join(work, "r.rls"), "w") as f:
                f.write(" ".join(sc["release_cols"]) + "\n")
                for r in sc["rows"]:
                    val = dict(mult=r["mult"], release_time=iso(r["t"]), X=r["xf"], Y=r["yf"], Z=r["zf"], farm=r["id"], src=r["id"])
                    f.write(" ".join(str(val[c]) for c in sc["release_cols"]) + "\n")
        else:
            write_release(sc, os.path.join(work, "r.rls"))
        conf = config(sc, work)
        conf["ibm"].pop("kill", None)
        for sec, key in sc["cfg_del"]:
            if key is None:
                conf.pop(sec, None)
            else:
                conf[sec].pop(key, None)
        for sec, key, val in sc["cfg_set"]:
            conf.setdefault(sec, {})[key] = os.path.join(work, val) if val else ""
        cpath = os.path.join(work, "ladim.yaml")
        if "config" not in sc["rm"]:
            with open(cpath, "w") as f:
                yaml.safe_dump(conf, f)
        R.reset(ivars=["farm", "age"])
        err = None
        try:
            main(cpath, loglevel=logging.CRITICAL)
        except SystemExit as e:
            err = f"SystemExit({e.code})"
        except BaseException as e:  # noqa: BLE001
            err = f"{type(e).__name__}: {str(e)[:80]}"
        steps = sum(1 for e in R.EVENTS if e["ev"] == "timer")
        R.reset()
        gc.collect()
        records = 0
        for fn in glob.glob(os.path.join(work, "out*.nc")):
            try:
                with Dataset(fn) as d:
                    records += int(len(d.dimensions["time"]))
            except Exception:
                records += 0
        ev.append(dict(ev="outcome", refused=bool(err is not None and steps == 0), crashed=bool(err is not None and steps > 0),
                       steps=steps, records=records, what=err or "ran"))
    finally:
        shutil.rmtree(work, ignore_errors=True)
    return ev


DRIVERS = {"faults": ("harness.checks.c20", "fault_trace", "StartupTrace", FAMILY)}


def scenarios(tier, seed):
    rng = random.Random(seed)
    out = []
    nb = 6 if tier == "thorough" else 2
    for rev in (False, True):
        for ncut in (0, 2):
            for cont in (False, True):
                for _ in range(nb):
                    base = base_scenario(rng, rev=rev, ncut=ncut, cont=cont, nsteps=rng.randrange(3, 8), allow_subgrid=False, nkill=0,
                                         exact_stop=rng.random() < 0.7)
                    if all(not (0 <= sim(base, r["t"]) < (abs(base["stop"] - base["start"]) // base["dt"]) * base["dt"]) for r in base["rows"]) and not cont:
                        continue
                    for f in FAULTS:
                        if f == "dup_across_files" and len(base["ftimes"]) < 2:
                            continue
                        sc = apply_fault(base, f, rng)
                        if f == "none" and rng.random() < 0.5:      # a legal sub-rectangle given by limits counted from the upper end is not a fault
                            sc["subgrid"] = rng.choice([[1, -1, 1, -1], [1, -2, 1, -2], [1, -2, 1, -1]])      # (the release cells stay inside the valid region)
                        sc["cls"] = dict(fault=f, rev=rev, multifile=ncut > 0, cont=cont)
                        out.append(sc)
    return out


def run(tier, seed):
    rep = Report("C20", tier, seed, level="fault_enumeration")
    rep.add_proof("SubgridSlicesInBounds")
    rep.add_mc("MC_Startup", tlc.model_check("MC_Startup", "MC_Startup.cfg" if tier == "thorough" else "MC_Startup_quick.cfg", must_take=["Choose"]),
               note="the start-up test on real times implies a covered layout in simulation steps with a bracketing pair of frames for every half step "
                    "(never extrapolates); a sorted frame set that fails the test lacks forcing somewhere in [start, stop]")
    scs = scenarios(tier, seed)
    traces = pmap("harness.checks.c20", "fault_trace", scs)
    rep.add_tv("faults", "StartupTrace", scs, traces, tlc.validate_traces("StartupTrace", traces), family=FAMILY)
    rep.require_counts("faults", {"faults": 50})
    rep.nontrivial = len({(s["fault"], s["rev"], bool(s["cuts"]), s["cont"]) for s in scs if s["fault"] != "none"})
    rep.rule = ("base scenarios {forward, reversed} x {single, multi-file forcing} x {discrete, continuous release} x every single fault of the list "
                f"({len(FAULTS) - 1} faults: forcing coverage at either end, frames out of order / duplicated across files, missing start / stop / dt, stop on the "
                "wrong side, no release in the window incl. only-at-stop, rows without position, missing config / grid / forcing / release / warm-start file, "
                "missing mandatory sections, illegal subgrids); validity is decided by TLC from the faulted description; non-trivial = distinct (fault, direction, layout, mode)")
    rep.assumptions = ["any error exit before the first step counts as a refusal (exit codes are not part of the property)"]
    return rep
