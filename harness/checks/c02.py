"""C02 - particles feel the interpolated C-grid forcing at their own position.
MC: MC_Interp (sampling geometry, sub-rectangles, land faces).  TV: ForceTrace on the real Grid + Forcing with
time-constant fields whose node values identify every index and weight."""
from __future__ import annotations

import random

from .. import tlc
from ..common import Report, pmap
from ..forcedrv import space_scenario

FAMILY = r"^(obs\.|run\.crashed|setup\.valid|trace\.incomplete)"
def exhaustive_scenario(rng):
    return space_scenario(rng, exhaustive=True)


DRIVERS = {"force-space": ("harness.forcedrv", "force_trace", "ForceTrace", FAMILY),
           "force-space-exhaustive": ("harness.forcedrv", "force_trace", "ForceTrace", FAMILY)}


def run(tier, seed):
    rep = Report("C02", tier, seed)
    rep.add_proof("WeightsConvexAll")
    rep.add_mc("MC_Interp", tlc.model_check("MC_Interp", "MC_Interp.cfg" if tier == "thorough" else "MC_Interp_quick.cfg",
                                            must_take=["Probe"]))
    rng = random.Random(seed)
    scs = [space_scenario(rng) for _ in range(2500 if tier == "thorough" else 500)]
    traces = pmap("harness.forcedrv", "force_trace", scs)
    rep.add_tv("force-space", "ForceTrace", scs, traces, tlc.validate_traces("ForceTrace", traces, batch_events=400), family=FAMILY)
    # small-scope exhaustive: every quarter-cell point of the valid region x every depth of the ladder, on a few grids
    re_ = random.Random(seed + 41)
    xs = [space_scenario(re_, exhaustive=True) for _ in range(12 if tier == "thorough" else 3)]
    xt = pmap("harness.forcedrv", "force_trace", xs)
    rep.add_tv("force-space-exhaustive", "ForceTrace", xs, xt, tlc.validate_traces("ForceTrace", xt, batch_events=4, timeout=1800), family=FAMILY)
    scs = scs + xs
    rep.nontrivial = sum(len(set(zip(s["xq"], s["yq"], s["z"]))) for s in scs)
    rep.extra["probe_values_compared"] = sum(len(s["xq"]) * 11 * 2 for s in scs)
    rep.rule = ("8 x 7 global grids with random land, two bathymetry values, 2-3 levels, three stretching curves (level spacings 10-60 m, weights in thirds and sixths as well as halves and quarters), random legal sub-rectangles (also counted "
                "from the upper end), float or int16-packed storage, forward/reversed; ~40 quarter-cell probes per grid incl. cell "
                "edges/corners and depths above, at, between, below the levels; plus, on a few grids, every quarter-cell point of the valid region x a 15-step depth ladder; non-trivial = distinct probes (position, depth) summed over grids")
    rep.assumptions = ["node values multiples of 24/1024 m/s with a mixed-radix formula (a wrong index or weight changes the integer)",
                       "at exact cell edges either neighbouring own cell is accepted (EdgeCell, DESIGN 3c)"]
    return rep
