"""C01 - advection follows the scheme's Butcher tableau.  TV: LadimTrace stage-protocol and displacement clauses on
sheared, time-dependent flows with anisotropic metrics.  MC: MC_Tableau (order conditions of the tableaux)."""
from __future__ import annotations

import random

from .. import tlc
from ..common import Report, pmap
from ..e2e import directed

FAMILY = r"^move\.(stages|displacement|shape)|^helper\.|^order\.|^run\.crashed"
DRIVERS = {"e2e-shear": ("harness.e2e", "run_e2e", "LadimTrace", FAMILY),
           "analytic-helpers": ("harness.checks.c01", "helper_trace", "HelperTrace", FAMILY),
           "convergence-order": ("harness.checks.c01", "order_trace", "HelperTrace", FAMILY),
           "convergence-order-roms": ("harness.checks.c01", "order_roms_trace", "HelperTrace", FAMILY)}


def helper_trace(sc):
    """ladim.analytical.get_velocity1/2/4 with a scripted sample function (fresh lattice values at every call)"""
    import numpy as np
    from ladim import analytical
    from ..enc import lat
    ev = [dict(ev="setup")]
    rng = random.Random(sc["seed"])

    class St:
        pass
    for _ in range(sc["n"]):
        which = rng.choice([1, 2, 4])
        sn, sd = rng.choice([(1, 2), (1, 1), (3, 4), (1, 1)]) if which == 2 else (1, 1)
        dt = rng.choice([1, 2, 4, 8])
        st = St()
        x0, y0 = rng.randrange(0, 4096 * 20), rng.randrange(0, 4096 * 20)
        st.X, st.Y = np.array([x0 / 4096.0]), np.array([y0 / 4096.0])
        calls, given = [], []

        def sample(x, y):
            cx, o1 = lat(np.asarray(x).ravel()[0], 4096)
            cy, o2 = lat(np.asarray(y).ravel()[0], 4096)
            calls.append([cx, cy, bool(o1 or o2)])
            # multiples of 12/64 keep s = 3/4 and the RK4 sixths on the lattice
            u, v = 12 * rng.randrange(-8, 9), 12 * rng.randrange(-8, 9)
            given.append([u, v])
            return np.array([u / 64.0]), np.array([v / 64.0])
        try:
            if which == 1:
                r = analytical.get_velocity1(st, sample, dt)
            elif which == 2:
                r = analytical.get_velocity2(st, sample, dt, s=sn / sd) if (sn, sd) != (1, 1) or rng.random() < 0.5 else analytical.get_velocity2(st, sample, dt)
            else:
                r = analytical.get_velocity4(st, sample, dt)
            ru, o1 = lat(np.asarray(r[0]).ravel()[0], 6 * 4096)
            rv, o2 = lat(np.asarray(r[1]).ravel()[0], 6 * 4096)
            ev.append(dict(ev="helper", which=which, sn=sn, sd=sd, dt=dt, x0=x0, y0=y0, calls=[c[:2] for c in calls], given=given, res=[ru, rv],
                           off=bool(o1 or o2 or any(c[2] for c in calls))))
        except Exception as e:
            ev.append(dict(ev="crash", what=f"{type(e).__name__}: {str(e)[:80]}"))
    return ev


def order_trace(sc):
    """end-point error of the real Tracker on an analytic, time-dependent rotation for dt, dt/2, dt/4, dt/8"""
    import math

    import numpy as np
    from ladim.tracker import Tracker
    ev = [dict(ev="setup")]
    dx, dy = sc["dx"], sc["dy"]
    xc, yc = 50.0, 50.0
    w0, T = sc["w0"], sc["T"]

    def omega(t):
        return w0 * (1.0 + 0.5 * math.sin(2 * math.pi * t / T))

    def theta(t):
        return w0 * (t - 0.5 * T / (2 * math.pi) * (math.cos(2 * math.pi * t / T) - 1.0))

    class G:
        xmin, xmax, ymin, ymax = 0.0, 100.0, 0.0, 100.0
        def metric(self, X, Y): return np.full(len(X), dx), np.full(len(X), dy)
        def ingrid(self, X, Y): return np.ones(len(X), bool)
        def atsea(self, X, Y): return np.ones(len(X), bool)
        def depth(self, X, Y): return np.full(len(X), 100.0)

    class S(dict):
        def __getattr__(self, k): return self[k]

    class F:
        variables = {}
        def __init__(self): self.t0 = 0.0; self.dt = 1.0
        def velocity(self, X, Y, Z, fractional_step=0, method="bilinear"):
            w = omega(self.t0 + fractional_step * self.dt)
            # dX/dt = u/dx = -w (y - yc) * dy/dx * ... : rotation in metres, converted per direction
            return -w * (Y - yc) * dy, w * (X - xc) * dx * (dx / dy) * (dy / dx)

    for adv in ("EF", "RK2", "RK4"):
        errs = []
        try:
            for k in range(4):
                n = sc["n0"] * 2 ** k
                dt = sc["Ttot"] / n

                class Tm:
                    pass
                tm = Tm()
                tm.dt = np.timedelta64(int(round(dt * 1e6)), "us")
                st = S(X=np.array([60.0, 55.0]), Y=np.array([50.0, 42.0]), Z=np.array([5.0, 5.0]), alive=np.ones(2, bool), active=np.ones(2, bool))
                f = F()
                tr = Tracker(advection=adv, modules=dict(time=tm, state=st, grid=G(), forcing=f))
                tr.dt = dt
                f.dt = dt
                for i in range(n):
                    f.t0 = i * dt
                    tr.update()
                th = theta(sc["Ttot"])
                # exact flow map in metres (anisotropic cells: work in metres)
                X0m, Y0m = (np.array([60.0, 55.0]) - xc) * dx, (np.array([50.0, 42.0]) - yc) * dy
                Xe = xc + (X0m * math.cos(th) - Y0m * math.sin(th)) / dx
                Ye = yc + (X0m * math.sin(th) + Y0m * math.cos(th)) / dy
                errs.append(float(np.max(np.hypot((st["X"] - Xe) * dx, (st["Y"] - Ye) * dy))))
            bad = any(not (e > 1e-11) for e in errs)
            slopes = [int(round(1000 * math.log2(errs[i] / errs[i + 1]))) for i in range(len(errs) - 1)] if not bad else []
            ev.append(dict(ev="order", adv=adv, slopes=slopes, bad=bool(bad), errs=[repr(e) for e in errs]))
        except Exception as e:
            ev.append(dict(ev="crash", what=f"{type(e).__name__}: {str(e)[:100]}"))
    return ev


def order_roms_trace(sc):
    """end-point error of the real Tracker driven by the real ROMS Forcing + Grid on a generated file whose field
    u = (a + b t)(1 + c x), v = (p + q t)(1 + e y) is reproduced exactly by the bilinear / linear-in-time interpolation and has a
    closed-form flow map; forward and reversed; dt halved three times (frames stay on the model time grid)"""
    import math
    import os
    import shutil

    import numpy as np
    from ladim.ROMS import Forcing, Grid
    from ladim.state import State
    from ladim.timekeeper import TimeKeeper
    from ladim.tracker import Tracker
    from ..enc import iso
    from ..world import make_roms
    ev = [dict(ev="setup")]
    work = tlc.scratch("lv_ord_")
    try:
        imax, jmax, N = 40, 24, 2
        T = 3840                                    # frames at 0, T/2, T
        a, b, c = sc["a"], sc["b"], sc["c"]
        p, q, e = sc["p"], sc["q"], sc["e"]
        dx = 400.0
        times = [0, T // 2, T]
        U = np.zeros((3, N, jmax, imax - 1)); V = np.zeros((3, N, jmax - 1, imax))
        xu = np.arange(imax - 1) + 0.5
        yv = np.arange(jmax - 1) + 0.5
        for n, t in enumerate(times):
            U[n] = ((a + b * t) * (1 + c * xu))[None, None, :]
            V[n] = ((p + q * t) * (1 + e * yv))[None, :, None]
        fn = os.path.join(work, "f_00.nc")
        make_roms(fn, imax=imax, jmax=jmax, N=N, times=times, U=U, V=V, dx=dx)
        X0, Y0 = np.array([12.3, 20.7]), np.array([8.4, 13.1])

        def exact(x0, y0, t0, t1):
            A = (a * (t1 - t0) + b * (t1 * t1 - t0 * t0) / 2.0) / dx
            B = (p * (t1 - t0) + q * (t1 * t1 - t0 * t0) / 2.0) / dx
            return ((1 + c * x0) * np.exp(c * A) - 1) / c, ((1 + e * y0) * np.exp(e * B) - 1) / e

        for rev in (False, True):
            for adv in ("EF", "RK2", "RK4"):
                errs = []
                for k in range(4):
                    n = sc.get("n0", 2) * 2 ** k
                    dt = T // n
                    start, stop = (T, 0) if rev else (0, T)
                    timer = TimeKeeper(start=iso(start), stop=iso(stop), dt=dt, time_reversal=rev)
                    state = State()
                    grid = Grid(fn)
                    force = Forcing(dict(time=timer, grid=grid, state=state), fn)
                    tr = Tracker(advection=adv, modules=dict(time=timer, state=state, grid=grid, forcing=force))
                    state.append(X=X0.copy(), Y=Y0.copy(), Z=5.0)
                    for _ in range(timer.Nsteps):
                        timer.update(); force.update(); tr.update()
                    force.close()
                    # reversed: the particle is carried back along the flow, i.e. the flow map from T to 0
                    xe, ye = exact(X0, Y0, T, 0) if rev else exact(X0, Y0, 0, T)
                    errs.append(float(np.max(np.hypot(state.X - xe, state.Y - ye))))
                # the forcing fields are float32: errors near 1e-7 cell are storage noise, not the scheme's error -> only refinements
                # whose finer error is still above 2e-6 are measurements (event kind "order32": wider lower band in the spec)
                slopes = [int(round(1000 * math.log2(errs[i] / errs[i + 1]))) for i in range(3) if errs[i + 1] > 2e-6]
                ev.append(dict(ev="order32", adv=adv, slopes=slopes, bad=bool(len(slopes) < 1), rev=rev, errs=[repr(x) for x in errs]))
    except Exception as ex:
        import traceback
        tb_ = traceback.extract_tb(ex.__traceback__)[-1]
        ev.append(dict(ev="crash", what=f"{type(ex).__name__}: {str(ex)[:100]} @{os.path.basename(tb_.filename)}:{tb_.lineno}"))
    finally:
        shutil.rmtree(work, ignore_errors=True)
    return ev


def scenarios(tier, seed):
    rng = random.Random(seed)
    return [directed(rng, "shear") for _ in range(1200 if tier == "thorough" else 300)]


def run(tier, seed):
    rep = Report("C01", tier, seed)
    rep.add_proof("FamilyOrder2All")
    rep.add_mc("MC_Tableau", tlc.model_check("MC_Tableau", "MC_Tableau.cfg"), note="order conditions of the EF/RK2/RK4 tableaux used by LadimTrace")
    scs = scenarios(tier, seed)
    traces = pmap("harness.e2e", "run_e2e", scs)
    rep.add_tv("e2e-shear", "LadimTrace", scs, traces, tlc.validate_traces("LadimTrace", traces, batch_events=1500), family=FAMILY)
    rep.require_counts("e2e-shear", {"moved": 300})
    hs = [dict(seed=seed * 10 + k, n=200, cls={}) for k in range(16 if tier == "thorough" else 4)]
    os_ = [dict(dx=dxy[0], dy=dxy[1], w0=w0, T=600.0, Ttot=1600.0, n0=32, cls={}) for dxy in ((100.0, 100.0), (80.0, 120.0)) for w0 in (0.002, 0.003)]
    ot = pmap("harness.checks.c01", "order_trace", os_)
    rep.add_tv("convergence-order", "HelperTrace", os_, ot, tlc.validate_traces("HelperTrace", ot), family=FAMILY)
    rs_ = [dict(a=0.1, b=2.0e-4, c=0.06, p=-0.08, q=-1.5e-4, e=0.07, cls={}), dict(a=-0.12, b=-1.8e-4, c=0.05, p=0.1, q=1.6e-4, e=0.06, cls={})]
    rt = pmap("harness.checks.c01", "order_roms_trace", rs_)
    rep.add_tv("convergence-order-roms", "HelperTrace", rs_, rt, tlc.validate_traces("HelperTrace", rt), family=FAMILY)
    ht = pmap("harness.checks.c01", "helper_trace", hs)
    rep.add_tv("analytic-helpers", "HelperTrace", hs, ht, tlc.validate_traces("HelperTrace", ht), family=FAMILY)
    rep.nontrivial = len({repr((s["fm"], s["rows"], s["adv"], s["dx"], s["dy"])) for s in scs if s["adv"] != "EF"})
    rep.rule = "sheared time-dependent flows, dx/dy in {128, 256} independently, EF/RK2/RK4; non-trivial = distinct scenarios with a multi-stage scheme"
    return rep
