"""C01 - advection follows the scheme's Butcher tableau.  TV: LadimTrace stage-protocol and displacement clauses on
sheared, time-dependent flows with anisotropic metrics.  MC: MC_Tableau (order conditions of the tableaux)."""
from __future__ import annotations

import random

from .. import tlc
from ..common import Report, pmap
from ..e2e import directed

FAMILY = r"^move\.(stages|displacement|shape)"
DRIVERS = {"e2e-shear": ("harness.e2e", "run_e2e", "LadimTrace", FAMILY)}


def scenarios(tier, seed):
    rng = random.Random(seed)
    return [directed(rng, "shear") for _ in range(1200 if tier == "thorough" else 300)]


def run(tier, seed):
    rep = Report("C01", tier, seed)
    rep.add_mc("MC_Tableau", tlc.model_check("MC_Tableau", "MC_Tableau.cfg"), note="order conditions of the EF/RK2/RK4 tableaux used by LadimTrace")
    scs = scenarios(tier, seed)
    traces = pmap("harness.e2e", "run_e2e", scs)
    rep.add_tv("e2e-shear", "LadimTrace", scs, traces, tlc.validate_traces("LadimTrace", traces, batch_events=1500), family=FAMILY)
    rep.require_counts("e2e-shear", {"moved": 300})
    rep.nontrivial = len({repr((s["fm"], s["rows"], s["adv"], s["dx"], s["dy"])) for s in scs if s["adv"] != "EF"})
    rep.rule = "sheared time-dependent flows, dx/dy in {128, 256} independently, EF/RK2/RK4; non-trivial = distinct scenarios with a multi-stage scheme"
    return rep
