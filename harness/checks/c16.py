"""C16 - longitude/latitude and grid coordinates are mutually consistent.  MC: MC_Geo (sample2D laws).
TV: GeoTrace on the real sample2D, Grid.xy2ll / ll2xy, ParticleReleaser (lon/lat release) and Output (lon/lat records)."""
from __future__ import annotations

import os
import random
import shutil

from .. import tlc
from ..common import Report, pmap
from ..enc import iso, lat

FAMILY = r"^lonlat\.|^grid\.onland|^(s2d|xy2ll|roundtrip|llrelease|llrecord)\.|^run\.crashed"
L = 720720
LONB, LATB = 5.0, 60.0


def s2d_trace(sc):
    import numpy as np
    from ladim.sample import sample2D
    ev = [dict(ev="setup")]
    for c in sc["cases"]:
        F = np.array(c["F"], float)
        M = np.array(c["M"], float) if c["masked"] else None
        if c["masked"] and c.get("junk"):          # what a masked node holds must not matter: nan, inf, a fill value (the event keeps the integer table)
            F = np.where(M > 0, F, {"nan": np.nan, "inf": np.inf, "fill": 1.0e37}[c["junk"]])
        kw = {}
        if c["masked"]:
            kw["mask"] = M
        if c["undef"] != 0 or c["pass_undef"]:
            kw["undef_value"] = float(c["undef"])
        if c["hasout"]:
            kw["outside_value"] = float(c["outval"])
        X = np.array([c["x"] / c["Q"]])
        Y = np.array([c["y"] / c["Q"]])
        try:
            r = sample2D(F, X, Y, **kw)
            res, off = lat(np.asarray(r).ravel()[0], L)
            raised = False
        except ValueError:
            res, off, raised = 0, False, True
        except Exception as e:
            ev.append(dict(ev="crash", what=f"{type(e).__name__}: {str(e)[:80]}"))
            continue
        ev.append(dict(ev="s2d", F=c["F"], M=c["M"], masked=c["masked"], x=c["x"], y=c["y"], Q=c["Q"], undef=c["undef"],
                       hasout=c["hasout"], outval=c["outval"], res=res, off=off, raised=raised))
    return ev


def _tables(sc):
    """integer lon/lat node tables (unit 2^-10 deg, relative to LONB/LATB): a sheared, slightly curved grid"""
    a, b, c, d, e = sc["geo"]
    jm, im = sc["jmax"], sc["imax"]
    lon = [[a * i + b * j + (e * i * j) // 2 + (i * i) // 3 for i in range(im)] for j in range(jm)]
    latt = [[c * j + d * i - (e * i * j) // 3 + (j * j) // 4 for i in range(im)] for j in range(jm)]
    return lon, latt


def grid_trace(sc):
    import numpy as np
    import yaml  # noqa: F401
    from ladim.ROMS import Grid
    from ladim.release import ParticleReleaser
    from ladim.state import State
    from ladim.timekeeper import TimeKeeper
    from ..world import make_roms
    lon, latt = _tables(sc)
    ev = [dict(ev="setup", lon=lon, lat=latt, sub=sc["subgrid"])]
    work = tlc.scratch("lv_geo_")
    try:
        fn = os.path.join(work, "g.nc")
        make_roms(fn, imax=sc["imax"], jmax=sc["jmax"], N=2, times=[0], lon=LONB + np.array(lon) / 1024.0, lat=LATB + np.array(latt) / 1024.0)
        g = Grid(fn, subgrid=tuple(sc["subgrid"]) if sc["subgrid"] else None)
        Q = 4
        X = np.array(sc["xq"], float) / Q
        Y = np.array(sc["yq"], float) / Q
        lo, la = g.xy2ll(X, Y)
        for k in range(len(X)):
            a, o1 = lat(lo[k] - LONB, 1024 * Q * Q)
            b, o2 = lat(la[k] - LATB, 1024 * Q * Q)
            ev.append(dict(ev="xy2ll", x=sc["xq"][k], y=sc["yq"][k], Q=Q, lon=a, lat=b, off=bool(o1 or o2)))
        # the Grid's own lon / lat look-up: bilinear (the same numbers as xy2ll) and nearest cell
        lob, lab = g.lonlat(X, Y)
        lon_n, lat_n = g.lonlat(X, Y, method="nearest")
        for k in range(len(X)):
            a, o1 = lat(lob[k] - LONB, 1024 * Q * Q)
            b, o2 = lat(lab[k] - LATB, 1024 * Q * Q)
            ev.append(dict(ev="xy2ll", x=sc["xq"][k], y=sc["yq"][k], Q=Q, lon=a, lat=b, off=bool(o1 or o2)))
            a, o1 = lat(lon_n[k] - LONB, 1024)
            b, o2 = lat(lat_n[k] - LATB, 1024)
            ev.append(dict(ev="llnearest", x=sc["xq"][k], y=sc["yq"][k], Q=Q, lon=a, lat=b, off=bool(o1 or o2)))
        ev.append(dict(ev="landsea", land=[bool(v) for v in g.onland(X, Y)], sea=[bool(v) for v in g.atsea(X, Y)]))
        # round trip at off-lattice positions
        XR = np.array(sc["xr"], float) / 65536.0
        YR = np.array(sc["yr"], float) / 65536.0
        lo0, la0 = g.xy2ll(XR, YR)
        x1, y1 = g.ll2xy(lo0, la0)
        bad = ~(np.isfinite(x1) & np.isfinite(y1)) | (np.abs(np.nan_to_num(x1)) > 1000) | (np.abs(np.nan_to_num(y1)) > 1000)
        x1s, y1s = np.where(bad, XR, x1), np.where(bad, YR, y1)
        inside = (x1s >= g.i0) & (x1s < g.i1 - 1) & (y1s >= g.j0) & (y1s < g.j1 - 1)
        lo1, la1 = g.xy2ll(np.where(inside, x1s, XR), np.where(inside, y1s, YR))
        for k in range(len(XR)):
            ev.append(dict(ev="roundtrip", x0=sc["xr"][k], y0=sc["yr"][k], x1=int(np.rint(x1s[k] * 65536)), y1=int(np.rint(y1s[k] * 65536)),
                           lon0=int(np.rint((lo0[k] - LONB) * 2**20)), lat0=int(np.rint((la0[k] - LATB) * 2**20)),
                           lon1=int(np.rint((lo1[k] - LONB) * 2**20)), lat1=int(np.rint((la1[k] - LATB) * 2**20)),
                           bad=bool(bad[k] or not inside[k])))
        # release given by longitude / latitude (values handed to the releaser are the inputs; the position is observed)
        timer = TimeKeeper(start=iso(0), stop=iso(120), dt=60)
        st = State()
        rp = os.path.join(work, "r.rls")
        with open(rp, "w") as f:
            f.write("release_time lon lat Z\n")
            for k in range(len(XR)):
                f.write(f"{iso(0)} {float(lo0[k])!r} {float(la0[k])!r} 5.0\n")
        pr = ParticleReleaser(dict(time=timer, state=st, grid=g), rp)
        timer.update()
        pr.update()
        n = len(st)
        badr = n != len(XR) or not np.all(np.isfinite(st.X)) or not np.all(np.isfinite(st.Y)) or np.any(np.abs(np.nan_to_num(st.X)) > 1000) or np.any(np.abs(np.nan_to_num(st.Y)) > 1000)
        xs = [int(v) for v in np.rint(np.clip(np.nan_to_num(st.X), -1000, 1000) * 65536)]
        ys = [int(v) for v in np.rint(np.clip(np.nan_to_num(st.Y), -1000, 1000) * 65536)]
        m = min(n, len(XR))
        ev.append(dict(ev="llrelease", x=xs[:m], y=ys[:m], lon=[int(np.rint((v - LONB) * 2**20)) for v in lo0[:m]],
                       lat=[int(np.rint((v - LATB) * 2**20)) for v in la0[:m]], bad=bool(badr)))
        # lon / lat written with a record: Output with lon, lat instance variables (real Output, real State)
        from ladim.out_netcdf import Output
        from netCDF4 import Dataset
        st2 = State(instance_variables=dict(lon=float, lat=float), default_values=dict(lon=0.0, lat=0.0))
        st2.append(X=XR, Y=YR, Z=5.0)
        for layout in sc["layouts"]:
            on = os.path.join(work, f"o_{layout}.nc")
            iv = {v: dict(encoding=dict(datatype="f8"), attributes={}) for v in ("X", "Y", "lon", "lat")}
            iv["pid"] = dict(encoding=dict(datatype="i4"), attributes={})
            out = Output(dict(time=timer, state=st2, grid=g), filename=on, output_period=60, instance_variables=iv, layout=layout)
            out.write(st2)
            out.close()
            with Dataset(on) as d:
                if layout == "sparse":
                    xx, yy, lo2, la2 = (np.ma.filled(d.variables[v][:].astype(float), np.nan) for v in ("X", "Y", "lon", "lat"))
                else:
                    xx, yy, lo2, la2 = (np.ma.filled(d.variables[v][0].astype(float), np.nan) for v in ("X", "Y", "lon", "lat"))
            fin = np.isfinite(xx) & np.isfinite(yy)
            badw = bool(len(lo2) != len(xx) or not np.all(np.isfinite(lo2[fin])) or not np.all(np.isfinite(la2[fin])) or fin.sum() != len(XR))
            ev.append(dict(ev="llrecord", x=[int(v) for v in np.rint(xx[fin] * 65536)], y=[int(v) for v in np.rint(yy[fin] * 65536)],
                           lon=[int(v) for v in np.rint((np.nan_to_num(lo2[fin]) - LONB) * 2**20)],
                           lat=[int(v) for v in np.rint((np.nan_to_num(la2[fin]) - LATB) * 2**20)], bad=badw, layout=layout))
    except SystemExit as e:
        ev.append(dict(ev="crash", what=f"SystemExit({e.code})"))
    except Exception as e:
        import traceback
        tb_ = traceback.extract_tb(e.__traceback__)[-1]
        ev.append(dict(ev="crash", what=f"{type(e).__name__}: {str(e)[:100]} @{os.path.basename(tb_.filename)}:{tb_.lineno}"))
    finally:
        shutil.rmtree(work, ignore_errors=True)
    return ev


def e2e_lonlat_trace(sc):
    """complete runs with lon / lat among the output variables, split files, both layouts: every record's lon / lat must be
    the bilinear interpolation of the grid's coordinates at X, Y of the same record"""
    from ..e2e import run_e2e
    tr = run_e2e(sc)
    im, jm = sc["imax"], sc["jmax"]
    # coordinate tables of harness/world.make_roms defaults (unit 2^-10 deg relative to (5, 60)): lon = 16 i + 2 j, lat = 8 j - i
    ev = [dict(ev="setup", lon=[[16 * i + 2 * j for i in range(im)] for j in range(jm)], lat=[[8 * j - i for i in range(im)] for j in range(jm)], sub=sc["subgrid"] or [])]
    fe = next((e for e in tr if e["ev"] == "files"), None)
    if fe is None:
        ev.append(dict(ev="crash", what=str(next((e.get("what") for e in tr if e["ev"] in ("crash", "refused")), "no files"))[:120]))
        return ev
    for f in fe["files"]:
        for r in f["recs"]:
            bad = any(v == -(2**30) for v in r["x"] + r["y"] + r["lon"] + r["lat"])
            ev.append(dict(ev="llrecord", x=r["x"], y=r["y"], lon=r["lon"], lat=r["lat"], bad=bool(bad), file=f["idx"]))
    return ev


def e2e_scenarios(tier, rng):
    from ..e2e import base_scenario
    out = []
    for _ in range(240 if tier == "thorough" else 60):
        sc = base_scenario(rng, numrec=rng.choice([1, 2, 2, 3]), nsteps=rng.randrange(4, 9), ops=rng.choice([1, 2]), ntimes=2, nkill=rng.choice([0, 1]), nfreeze=0)
        sc["lonlat_out"] = True
        for r in sc["rows"]:
            r["mult"] = max(1, r["mult"])
        out.append(sc)
    return out


def s2d_scenarios(tier, rng):
    cases = []
    n = 12000 if tier == "thorough" else 2500
    for _ in range(n):
        nj, ni = rng.choice([(3, 3), (4, 4), (3, 5)])
        Q = 4
        F = [[rng.randrange(-2, 3) for _ in range(ni)] for _ in range(nj)]
        masked = rng.random() < 0.6
        M = [[1 if rng.random() < 0.7 else 0 for _ in range(ni)] for _ in range(nj)] if masked else [[1] * ni for _ in range(nj)]
        x = rng.randrange(-2, (ni - 1) * Q + 3)
        y = rng.randrange(-2, (nj - 1) * Q + 3) if rng.random() < 0.5 else rng.randrange(0, (nj - 1) * Q)
        hasout = rng.random() < 0.7
        cases.append(dict(F=F, M=M, masked=masked, junk=(rng.choice(["nan", "inf", "fill"]) if masked and rng.random() < 0.4 else ""),
                          x=x, y=y, Q=Q, undef=rng.choice([0, 0, -9, 7]), pass_undef=rng.random() < 0.5,
                          hasout=hasout, outval=rng.choice([0, 0, -1, 5]) if hasout else 0))
    return [dict(cases=cases[i:i + 250], cls={}) for i in range(0, len(cases), 250)]


def grid_scenarios(tier, rng):
    out = []
    for _ in range(240 if tier == "thorough" else 60):
        imax, jmax = rng.choice([(10, 9), (12, 8), (8, 12)])
        sub = None
        if rng.random() < 0.6:
            i0 = rng.randrange(1, 4); i1 = rng.randrange(i0 + 3, imax)
            j0 = rng.randrange(1, 4); j1 = rng.randrange(j0 + 3, jmax)
            sub = [i0, i1, j0, j1]
        i0, i1, j0, j1 = sub if sub else (1, imax - 1, 1, jmax - 1)
        while True:      # keep the coordinate tables a regular curvilinear grid: cell sizes never collapse (Jacobian well away from singular)
            geo = (rng.randrange(12, 24), rng.randrange(-6, 7), rng.randrange(8, 16), rng.randrange(-5, 6), rng.randrange(0, 3))
            lon, latt = _tables(dict(geo=geo, imax=imax, jmax=jmax))
            dlon_i = min(lon[j][i + 1] - lon[j][i] for j in range(jmax) for i in range(imax - 1))
            dlat_j = min(latt[j + 1][i] - latt[j][i] for j in range(jmax - 1) for i in range(imax))
            cross = max(max(abs(lon[j + 1][i] - lon[j][i]) for j in range(jmax - 1) for i in range(imax)),
                        max(abs(latt[j][i + 1] - latt[j][i]) for j in range(jmax) for i in range(imax - 1)))
            if dlon_i >= 8 and dlat_j >= 5 and cross <= min(dlon_i, dlat_j) + 3:
                break
        Q = 4
        pts = [(x, y) for x in range(i0 * Q, (i1 - 1) * Q) for y in range(j0 * Q, (j1 - 1) * Q)]
        rng.shuffle(pts)
        pts = pts[:40]
        xr = [rng.randrange(int((i0 + 0.5) * 65536) + 1, int((i1 - 1.5) * 65536)) for _ in range(25)]
        yr = [rng.randrange(int((j0 + 0.5) * 65536) + 1, int((j1 - 1.5) * 65536)) for _ in range(25)]
        out.append(dict(imax=imax, jmax=jmax, subgrid=sub, geo=geo, xq=[p[0] for p in pts], yq=[p[1] for p in pts], xr=xr, yr=yr,
                        layouts=["sparse", "dense"], cls=dict(subgrid=sub is not None)))
    return out


DRIVERS = {"e2e-lonlat": ("harness.checks.c16", "e2e_lonlat_trace", "GeoTrace", FAMILY),
           "sample2d": ("harness.checks.c16", "s2d_trace", "GeoTrace", FAMILY),
           "lonlat": ("harness.checks.c16", "grid_trace", "GeoTrace", FAMILY)}


def run(tier, seed):
    rep = Report("C16", tier, seed)
    rng = random.Random(seed)
    rep.add_mc("MC_Geo", tlc.model_check("MC_Geo", "MC_Geo.cfg" if tier == "thorough" else "MC_Geo_quick.cfg", must_take=["Probe"]))
    s1 = s2d_scenarios(tier, rng)
    t1 = pmap("harness.checks.c16", "s2d_trace", s1)
    rep.add_tv("sample2d", "GeoTrace", s1, t1, tlc.validate_traces("GeoTrace", t1), family=FAMILY)
    s2 = grid_scenarios(tier, rng)
    t2 = pmap("harness.checks.c16", "grid_trace", s2)
    rep.add_tv("lonlat", "GeoTrace", s2, t2, tlc.validate_traces("GeoTrace", t2), family=FAMILY)
    s3 = e2e_scenarios(tier, rng)
    t3 = pmap("harness.checks.c16", "e2e_lonlat_trace", s3)
    rep.add_tv("e2e-lonlat", "GeoTrace", s3, t3, tlc.validate_traces("GeoTrace", t3), family=FAMILY)
    rep.nontrivial = sum(len(s["cases"]) for s in s1) + sum(len(s["xq"]) + len(s["xr"]) for s in s2)
    rep.rule = ("sample2D: random small integer fields/masks, quarter-cell positions incl. outside, undefined and substitute values incl. 0; "
                "lon/lat: sheared, curved coordinate tables (2^-10 deg), random sub-rectangles, 40 lattice probes (xy2ll exact) + 25 off-lattice "
                "positions (round trip, release by lon/lat, lon/lat written with a record in both layouts); non-trivial = distinct probes")
    rep.assumptions = ["Newton inversion is checked through its post-condition (residual below the solver tolerance 1e-7 deg^2) on every recorded inversion, not proved to converge (DESIGN 7)"]
    return rep
