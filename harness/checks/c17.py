"""C17 - compiled sampling kernels never read outside the forcing arrays.
MC: MC_Interp (all four corners inside the loaded arrays for every position of the clipped region, every sub-rectangle)
and MC_Vertical (level pair exists).  TV, executed in workers started with NUMBA_BOUNDSCHECK=1:
ForceTrace with probes hugging the edges of the loaded rectangle (a wrapped negative index changes the identifying
node value; a positive overrun raises IndexError) and LadimTrace on fast boundary-bound Runge-Kutta runs (stage positions clipped)."""
from __future__ import annotations

import random

from .. import tlc
from ..common import Report, pmap
from ..e2e import base_scenario, directed
from ..forcedrv import margin_scenario

ENV = {"NUMBA_BOUNDSCHECK": "1"}
FAMILY_F = r"^(obs\.|run\.crashed|setup\.valid|trace\.incomplete)"
FAMILY_E = r"^run\.crashed|^move\.(stages|shape)"
DRIVERS = {"force-margin": ("harness.forcedrv", "force_trace", "ForceTrace", FAMILY_F),
           "e2e-boundary": ("harness.e2e", "run_e2e", "LadimTrace", FAMILY_E)}


def run(tier, seed):
    rep = Report("C17", tier, seed)
    rep.add_proof("SubgridSlicesInBounds")
    rep.add_mc("MC_Interp", tlc.model_check("MC_Interp", "MC_Interp.cfg" if tier == "thorough" else "MC_Interp_quick.cfg", must_take=["Probe"]),
               note="InBounds, OwnCellLoaded, ValidInsideClipped")
    rep.add_mc("MC_Vertical", tlc.model_check("MC_Vertical", "MC_Vertical.cfg" if tier == "thorough" else "MC_Vertical_quick.cfg",
                                              must_take=["GrowCol", "Probe"]), note="LookupLaw: both levels of the pair exist")
    rng = random.Random(seed)
    n = 1500 if tier == "thorough" else 300
    s1 = [margin_scenario(rng, n1=(k % 12 == 0)) for k in range(n)]
    t1 = pmap("harness.forcedrv", "force_trace", s1, env=ENV)
    rep.add_tv("force-margin", "ForceTrace", s1, t1, tlc.validate_traces("ForceTrace", t1, batch_events=400), family=FAMILY_F)
    s2 = [directed(rng, "boundary") if k % 5 else base_scenario(rng) for k in range(n)]
    t2 = pmap("harness.e2e", "run_e2e", s2, env=ENV)
    rep.add_tv("e2e-boundary", "LadimTrace", s2, t2, tlc.validate_traces("LadimTrace", t2, batch_events=1500), family=FAMILY_E)
    rep.require_counts("e2e-boundary", {"killed": 30, "moved": 100})
    rep.nontrivial = sum(len(set(zip(s["xq"], s["yq"], s["z"]))) for s in s1) + len({repr((s["fm"], s["rows"], s["adv"])) for s in s2})
    rep.rule = ("probes on the quarter-cell lattice of the clipped region with 80 % on the margins next to the edges of the loaded rectangle (every sub-rectangle "
                "shape, 1-3 levels, depths above / below all levels); fast uniform flows (up to ~0.85 cell per step) from releases next to the open boundaries "
                "with RK2/RK4; all executed under NUMBA_BOUNDSCHECK=1; non-trivial = distinct probes + distinct boundary runs")
    rep.assumptions = ["numba's bounds checker reports positive overruns; negative indices wrap silently and are detected through the identifying node values",
                       "the memory access itself is only observed on executed scenarios; the index arithmetic is proved in bounds on the model (DESIGN 7)"]
    return rep
