"""C19 - step protocol.  TV: LadimTrace on complete runs with all eight modules replaced by recording plug-ins
given by file path.  MC: MC_Ladim (composition: protocol cycle, cached per-particle forcing alignment)."""
from __future__ import annotations

import random

from .. import tlc
from ..common import Report, pmap
from ..e2e import base_scenario

FAMILY = (r"\.pc$|^trace\.incomplete|^files\.scalar_valid_at_record|\.step$|^timer\.within_run|^force\.(sees_all|len|at_current)|^output\.snap|^move\.pre|^ibm\.(sees|once|module)|"
          r"^close\.|^files\.closed_once|^vel\.pc|^run\.crashed")
DRIVERS = {"e2e": ("harness.e2e", "run_e2e", "LadimTrace", FAMILY),
           "e2e-warm-start": ("harness.checks.c08", "restarted_only", "LadimTrace", FAMILY),
           "e2e-from-model": ("harness.checks.c19", "model_trace", "LadimTrace", FAMILY + r"|^model\.")}


def from_model(scn, rng):
    """materialise a scenario chosen by TLC (MC_Ladim / GEN configuration) in the concrete world: a channel in which the upper
    level flows one cell per step and the lower level rests, releases in the cell next to the western margin, valid region
    four cells long - so that the abstract model's records (which identifiers are alive at each record) are a prediction."""
    dt, dx = 128, 128.0
    nsteps = 5
    sc = base_scenario(rng, shape=(8, 7), allow_subgrid=False, nland=0, varmetric=False, N=2, rev=False, nsteps=nsteps, exact_stop=True, dt=dt, dx=dx, cont=False,
                       ntimes=1, nkill=0, nfreeze=0, ops=scn["ops"], layout="sparse", hasscal=False, adv=rng.choice(["EF", "RK2", "RK4"]))
    sc["levels_uv"] = [(0.0, 0.0), (1.0, 0.0)]              # level index 0 = deep (rests), 1 = upper (one cell per step)
    sc["pack"] = False
    rows, rid = [], 0
    for step, key in ((0, "rel0"), (1, "rel1"), (3, "rel3")):
        for lv in scn[key]:
            rid += 1
            rows.append(dict(t=sc["start"] + step * dt, mult=1, id=rid, xf=2.0, yf=3.0, zf=5.0 if lv == 0 else 35.0))
    sc["rows"] = rows
    sc["kill"] = sorted([int(k[0]), int(k[1])] for k in scn["kill"])
    sc["freeze"] = []
    sc["predicted"] = [dict(step=r["step"], pids=r["pids"]) for r in scn["records"]]
    sc["cls"] = dict(sc["cls"], model=True, kills=len(sc["kill"]))
    return sc


def model_trace(sc):
    """run the TLC-chosen scenario; append the comparison event for the abstract model's prediction"""
    from ..e2e import run_e2e
    tr = run_e2e(sc)
    fe = next((e for e in tr if e["ev"] == "files"), None)
    got = [[int(p) for p in r["pid"]] for f in fe["files"] for r in f["recs"]] if fe else []
    tr.append(dict(ev="predicted", want=[r["pids"] for r in sc["predicted"]], got=got))
    return tr


def scenarios(tier, seed):
    rng = random.Random(seed)
    scs = [base_scenario(rng) for _ in range(1500 if tier == "thorough" else 300)]
    rl = random.Random(seed + 29)
    for sc in scs:        # every plug-in named by absolute path (with / without .py), by a path relative to the working directory or as a module on sys.path
        if rl.random() < 0.12:
            sc["via_cli"] = True
        if rl.random() < 0.7:
            sc["plugstyle"] = {k: rl.choice(["abs.py", "abs", "rel", "name"]) for k in ("time", "state", "grid", "forcing", "tracker", "release", "output")}
    return scs


def run(tier, seed):
    rep = Report("C19", tier, seed)
    rep.add_mc("MC_Ladim", tlc.model_check("MC_Ladim", "MC_Ladim.cfg" if tier == "thorough" else "MC_Ladim_quick.cfg", must_take=["Call", "Restart", "Continue"], timeout=3000),
               note="ProtocolOrder, RecordIsForcedState, RecordsFaithful on the composed model")
    scs = scenarios(tier, seed)
    traces = pmap("harness.e2e", "run_e2e", scs)
    rep.add_tv("e2e", "LadimTrace", scs, traces, tlc.validate_traces("LadimTrace", traces, batch_events=1500), family=FAMILY)
    # the catch-up cycle of a warm start is a step too: release, forcing, move, IBM once, no output
    from .c08 import family as restart_family_sc
    rngw = random.Random(seed + 11)
    fams = [restart_family_sc(rngw) for _ in range(60 if tier == "thorough" else 14)]
    resw = pmap("harness.checks.c08", "run_family", fams)
    ws, owners = [], []
    for f, r in zip(fams, resw):
        for k, t in enumerate(r["ladim"][1:]):
            ws.append(t)
            owners.append(dict(f, restart_k=k))
    rep.add_tv("e2e-warm-start", "LadimTrace", owners, ws, tlc.validate_traces("LadimTrace", ws, batch_events=1500), family=FAMILY)
    # spec -> code: scenarios chosen by TLC on the composed model, with the model's own records as prediction
    import json
    import re
    gen = tlc.run_tlc("MC_Ladim", "GEN_Ladim.cfg", workers=8, timeout=1200)
    if gen.error or gen.violated:
        raise tlc.MachineryError("GEN_Ladim failed: " + (gen.error or str(gen.violated)))
    scns = [json.loads(json.loads(x)) for x in re.findall(r'<<"SCN", ("(?:[^"\\]|\\.)*")>>', gen.out)]
    if len(scns) < 1000:
        raise tlc.MachineryError(f"too few scenarios generated by TLC: {len(scns)}")
    rng = random.Random(seed + 7)
    pick = rng.sample(scns, 1200 if tier == "thorough" else 250)
    ms = [from_model(x, rng) for x in pick]
    mt = pmap("harness.checks.c19", "model_trace", ms)
    rep.add_tv("e2e-from-model", "LadimTrace", ms, mt, tlc.validate_traces("LadimTrace", mt, batch_events=1500), family=FAMILY + r"|^model\.")
    rep.extra["scenarios_generated_by_tlc"] = len(scns)
    rep.nontrivial = len({repr((s["rows"], s["kill"], s["ops"], s["cls"]["nsteps"])) for s in scs + ms if s["cls"]["nsteps"] >= 2})
    rep.rule = ("random end-to-end scenarios, every module a recording plug-in named by absolute path (with / without .py), by a path relative to the working "
                "directory or as a module on the python search path, the IBM a per-scenario file with a token; warm starts; scenarios chosen by TLC on the composed "
                "model; non-trivial = distinct (release table, kills, period, length) with at least two steps")
    return rep
