"""C19 - step protocol.  TV: LadimTrace on complete runs with all eight modules replaced by recording plug-ins
given by file path.  MC: MC_Ladim (composition: protocol cycle, cached per-particle forcing alignment)."""
from __future__ import annotations

import random

from .. import tlc
from ..common import Report, pmap
from ..e2e import base_scenario

FAMILY = (r"\.pc$|\.step$|^timer\.within_run|^force\.(sees_all|len|at_current)|^output\.snap|^move\.pre|^ibm\.(sees|once|module)|"
          r"^close\.|^files\.closed_once|^vel\.pc|^run\.crashed")
DRIVERS = {"e2e": ("harness.e2e", "run_e2e", "LadimTrace", FAMILY)}


def scenarios(tier, seed):
    rng = random.Random(seed)
    return [base_scenario(rng) for _ in range(1500 if tier == "thorough" else 300)]


def run(tier, seed):
    rep = Report("C19", tier, seed)
    scs = scenarios(tier, seed)
    traces = pmap("harness.e2e", "run_e2e", scs)
    rep.add_tv("e2e", "LadimTrace", scs, traces, tlc.validate_traces("LadimTrace", traces, batch_events=1500), family=FAMILY)
    rep.nontrivial = len({repr((s["rows"], s["kill"], s["ops"], s["cls"]["nsteps"])) for s in scs if s["cls"]["nsteps"] >= 2})
    rep.rule = "random end-to-end scenarios; non-trivial = distinct (release table, kills, period, length) with at least two steps"
    return rep
