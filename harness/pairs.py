"""Paired runs of the real model for the relational properties (C08, C10, C14, C18): every run is recorded for LadimTrace,
and the decoded outputs of reference run and variant are handed to PairTrace."""
from __future__ import annotations

import copy

from .e2e import run_e2e, sim2t


def flatten(trace):
    """files event of a LadimTrace trace -> run record of PairTrace (pure re-indexing)."""
    fe = next((e for e in trace if e["ev"] == "files"), None)
    if fe is None:
        what = next((e.get("what", "") for e in trace if e["ev"] in ("crash", "refused")), "no files event")
        return dict(ok=False, recs=[], idx=[], refs=[], pvrt=[], pvsrc=[], what=str(what)[:120])
    files = fe["files"]
    recs = [r for f in files for r in f["recs"]]
    farm_of = {}
    for r in recs:
        for p, f in zip(r["pid"], r["farm"]):
            farm_of.setdefault(p, f)
    rank = {}
    seen = {}
    for p in sorted(farm_of):
        f = farm_of[p]
        seen[f] = seen.get(f, 0) + 1
        rank[p] = f * 1000 + seen[f]
    out = []
    for r in recs:
        parts = [dict(key=rank[p], pid=p, x=r["x"][i], y=r["y"][i], z=r["z"][i], age=r["age"][i], farm=r["farm"][i], hx=r["hx"][i])
                 for i, p in enumerate(r["pid"])]
        out.append(dict(time=r["time"], parts=parts))
    last = files[-1] if files else dict(pv_release_time=[], pv_src=[])
    return dict(ok=True, recs=out, idx=[f["idx"] for f in files], refs=[f.get("ref", 0) for f in files], pvrt=last["pv_release_time"], pvsrc=last["pv_src"], what="")


def run_pair(sc):
    """sc = dict(base=<scenario>, variants=[dict(kind=..., sc=<scenario>, **params)])"""
    ta = run_e2e(sc["base"])
    ladim = [ta]
    pair = [dict(ev="setup", kinds=[v["kind"] for v in sc["variants"]]), dict(ev="runA", **flatten(ta))]
    for v in sc["variants"]:
        tb = run_e2e(v["sc"])
        ladim.append(tb)
        params = {k: x for k, x in v.items() if k not in ("sc",)}
        pair.append(dict(ev="runB", **params, **flatten(tb)))
    return dict(ladim=ladim, pair=pair)


# ------------------------------------------------------------------------------------------------ variant builders
def shifted(sc, k):
    """every time of the set-up moved by k whole steps"""
    b = copy.deepcopy(sc)
    d = k * sc["dt"]
    b["start"] += d
    b["stop"] += d
    b["ftimes"] = [t + d for t in b["ftimes"]]
    for r in b["rows"]:
        r["t"] += d
    return b


def without_rows(sc, farms):
    b = copy.deepcopy(sc)
    b["rows"] = [r for r in b["rows"] if r["id"] not in farms]
    return b


def permuted(sc, rng):
    """rows reordered inside each release time (file still sorted by time)"""
    b = copy.deepcopy(sc)
    out = []
    rows = b["rows"]
    i = 0
    while i < len(rows):
        j = i
        while j < len(rows) and rows[j]["t"] == rows[i]["t"]:
            j += 1
        grp = rows[i:j]
        rng.shuffle(grp)
        out += grp
        i = j
    b["rows"] = out
    return b


def mirrored(sc):
    """forward run over the mirrored time axis in the sign-flipped flow with mirrored release times"""
    assert sc["rev"]
    b = copy.deepcopy(sc)
    axis = sc["start"] + (sc["start"] - 10 * sc["dt"])          # t -> axis - t ; the mirrored run starts 10 steps earlier on the clock
    m = lambda t: axis - t
    b["rev"] = False
    b["start"], b["stop"] = m(sc["start"]), m(sc["stop"])
    n = len(sc["ftimes"])
    b["ftimes"] = [m(t) for t in reversed(sc["ftimes"])]
    b["frame_numbers"] = list(reversed(range(n)))                # file frame k of the mirror holds original frame n-1-k
    b["field_sign"] = -1
    b["cuts"] = sorted(n - c for c in sc["cuts"])
    for r in b["rows"]:
        r["t"] = m(r["t"])
    b["rows"] = sorted(b["rows"], key=lambda r: r["t"]) if False else b["rows"]   # simulation order is already the same
    b["ref"] = m(sc["ref"]) if sc["hasref"] else sc["ref"]
    return b, axis


# ------------------------------------------------------------------------------------------------ restart (C08)
def restart_family(sc):
    """Run the uninterrupted split run, then warm-start a new run from every completed output file.
    The restarted run's LadimTrace set-up is initialised from the uninterrupted run's own recorded history."""
    import glob
    import os
    import re
    import shutil
    from . import tlc
    keep = tlc.scratch("lv_c08_")
    try:
        base = dict(sc["base"], keep_output=keep)
        ta = run_e2e(base)
        ladim = [ta]
        pair = [dict(ev="setup", kinds=["restart"]), dict(ev="runA", **flatten(ta))]
        fe = next((e for e in ta if e["ev"] == "files"), None)
        if fe is None:
            return dict(ladim=ladim, pair=pair, nrestarts=0)
        # output history of A: (step, snapshot) at every due output call
        outs = [e for e in ta if e["ev"] == "output" and e["step"] % base["ops"] == 0]
        nrec = 0
        n = 0
        for f in fe["files"][: sc.get("max_restarts", 4)]:
            nrec += len(f["recs"])
            if base["numrec"] == 0 or len(f["recs"]) < base["numrec"]:
                continue                                   # not a *completed* file of a split run
            o = outs[nrec - 1]
            rstep = o["step"]
            rtime = sim2t(base, rstep)
            nsteps_left = abs(base["stop"] - rtime) // base["dt"]
            if nsteps_left < 1:
                continue
            snap = o["snap"]
            alive = [i for i, a in enumerate(snap["alive"]) if a]
            parts = [dict(pid=snap["pid"][i], x=snap["x"][i], y=snap["y"][i], z=snap["z"][i], alive=True, active=bool(snap["active"][i]),
                          farm=snap["farm"][i], age=snap["age"][i]) for i in alive]
            npid = snap["npid"]
            born = [dict(rt=f["pv_release_time"][p], src=f["pv_src"][p]) for p in range(min(npid, len(f["pv_src"])))]
            src = os.path.join(keep, "out_%03d.nc" % f["idx"])
            b = dict(sc["base"])
            b.pop("keep_output", None)
            b["start"] = rtime
            b["kill"] = [[s - rstep, p] for s, p in base["kill"] if s - rstep >= 0]
            b["killfarm"] = [[s - rstep, p] for s, p in base.get("killfarm", []) if s - rstep >= 0]
            b["freeze"] = [[s - rstep, p] for s, p in base.get("freeze", []) if s - rstep >= 0]
            b["extra_files"] = {"restart_in.nc": src}
            b["warm"] = dict(name="restart_in.nc", idx=f["idx"], init=dict(parts=parts, npid=npid, born=born))
            if (f["idx"] + len(parts)) % 2 == 0:          # "unchanged settings": the configuration still names the original start time
                b["warm"]["config_start"] = base["start"]
            b["outname"] = "out_%03d.nc" % (f["idx"] + 1)
            if sc.get("dense_restart"):                    # the restarted run writes the dense layout: column = identifier (its files are no restart files)
                b["layout"] = "dense"
            keep2 = os.path.join(keep, "chain")
            b["keep_output"] = keep2
            tb = run_e2e(b)
            ladim.append(tb)
            pair.append(dict(ev="runB", kind="restart", astart=base["start"], astop=base["stop"], adt=base["dt"], restart_time=rtime if not base["rev"] else -rtime,
                             fromidx=f["idx"], **_signed(flatten(tb), base["rev"])))
            n += 1
            # the chain goes on: a third run warm-started from the FIRST file the restarted run completed must still be the
            # uninterrupted run (file names continue, identifiers continue, the restarted run's files are valid restart files)
            feb = next((e for e in tb if e["ev"] == "files"), None)
            nrec2 = nrec + base["numrec"]
            pos = [k for k, g in enumerate(fe["files"]) if g["idx"] == f["idx"] + 1]
            if (sc.get("chain", True) and not sc.get("dense_restart") and n == 1 and feb and feb["files"] and len(feb["files"][0]["recs"]) == base["numrec"]
                    and nrec2 <= len(outs) and pos and len(fe["files"][pos[0]]["recs"]) == base["numrec"]):
                o2 = outs[nrec2 - 1]
                rstep2, f2 = o2["step"], fe["files"][pos[0]]
                rtime2 = sim2t(base, rstep2)
                if abs(base["stop"] - rtime2) // base["dt"] >= 1:
                    snap2 = o2["snap"]
                    alive2 = [i for i, a in enumerate(snap2["alive"]) if a]
                    parts2 = [dict(pid=snap2["pid"][i], x=snap2["x"][i], y=snap2["y"][i], z=snap2["z"][i], alive=True, active=bool(snap2["active"][i]),
                                   farm=snap2["farm"][i], age=snap2["age"][i]) for i in alive2]
                    born2 = [dict(rt=f2["pv_release_time"][p], src=f2["pv_src"][p]) for p in range(min(snap2["npid"], len(f2["pv_src"])))]
                    c = dict(sc["base"])
                    c.pop("keep_output", None)
                    c["start"] = rtime2
                    c["kill"] = [[s - rstep2, p] for s, p in base["kill"] if s - rstep2 >= 0]
                    c["killfarm"] = [[s - rstep2, p] for s, p in base.get("killfarm", []) if s - rstep2 >= 0]
                    c["freeze"] = [[s - rstep2, p] for s, p in base.get("freeze", []) if s - rstep2 >= 0]
                    c["extra_files"] = {"restart_in.nc": os.path.join(keep2, "out_%03d.nc" % f2["idx"])}     # written by the RESTARTED run
                    c["warm"] = dict(name="restart_in.nc", idx=f2["idx"], init=dict(parts=parts2, npid=snap2["npid"], born=born2), config_start=base["start"])
                    c["outname"] = "out_%03d.nc" % (f2["idx"] + 1)
                    tc = run_e2e(c)
                    ladim.append(tc)
                    pair.append(dict(ev="runB", kind="restart", astart=base["start"], astop=base["stop"], adt=base["dt"],
                                     restart_time=rtime2 if not base["rev"] else -rtime2, fromidx=f2["idx"], **_signed(flatten(tc), base["rev"])))
            shutil.rmtree(keep2, ignore_errors=True)
        if base["rev"]:
            pair[1] = dict(ev="runA", **_signed(flatten(ta), True))
        return dict(ladim=ladim, pair=pair, nrestarts=n)
    finally:
        shutil.rmtree(keep, ignore_errors=True)


def _signed(run, rev):
    """for reversed runs compare in simulation order: negate the record times (pure re-indexing)"""
    if not rev:
        return run
    r = dict(run)
    r["recs"] = [dict(rec, time=-rec["time"]) for rec in run["recs"]]
    return r
