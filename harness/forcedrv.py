"""Driver: real TimeKeeper + Grid + Forcing (+ State) on generated lattice-world forcing files -> ForceTrace events."""
from __future__ import annotations

import os
import shutil

from . import tlc
from .enc import iso, lat
from .world import UNIT, formula_fields, make_roms, partition

DEN = 1280          # observations are logged as round(U * UNIT * DEN)
QH = 4              # horizontal probe lattice: quarter cells


def layout_of(sc):
    """frame steps in simulation order + frame numbers (pure re-indexing of the scenario's frame times)."""
    st, dt, rev = sc["start"], sc["dt"], sc["rev"]
    fsim = [((st - t) if rev else (t - st)) // dt for t in sc["ftimes"]]
    order = sorted(range(len(fsim)), key=lambda n: fsim[n])
    return dict(fs=[int(fsim[n]) for n in order], fidx=[int(n) for n in order])


CS_CHOICES = {1: [[[-1, 2]], [[-1, 4]], [[-3, 4]]],
              2: [[[-3, 4], [-1, 4]], [[-7, 8], [-1, 8]], [[-5, 8], [-3, 8]]]}       # stretching curves as fractions, bottom level first


def cs_of(sc):
    """the stretching curve at the rho levels as fractions [num, den]; default C = -1 + (k + 1/2)/N"""
    N = sc["N"]
    return sc.get("cs") or [[-(2 * N - 2 * k - 1), 2 * N] for k in range(N)]


def levels(sc):
    """integer level depths per global cell (hc = 0: z = h C)."""
    cs = cs_of(sc)
    for row in sc["H"]:
        for h in row:
            if any((h * num) % den for num, den in cs):
                raise ValueError(f"scenario generator bug: level depths of h = {h} with C = {cs} are not integers")
    return [[[(h * num) // den for num, den in cs] for h in row] for row in sc["H"]]


def file_names(sc, nfiles):
    """forcing file names in time order; the forcing sorts its files by name, so the lexicographic order must be the time order.
    "unpadded" names differ in length (f_10.nc < f_11.nc < f_9.nc): shortest-first or numeric ordering would pick another first file."""
    if sc.get("naming") == "unpadded" and nfiles >= 2:
        return [f"f_{10 + k}.nc" for k in range(nfiles - 1)] + ["f_9.nc"]
    return [f"f_{n:02d}.nc" for n in range(nfiles)]


def geo_tables(sc):
    """lon / lat node tables in degrees for sc["geo"] = (a, b, c, d, e): a sheared, slightly curved grid (same family as C16's)"""
    import numpy as np
    a, b, c, d, e = sc["geo"]
    jm, im = sc["jmax"], sc["imax"]
    lon = [[a * i + b * j + (e * i * j) // 2 + (i * i) // 3 for i in range(im)] for j in range(jm)]
    latt = [[c * j + d * i - (e * i * j) // 3 + (j * j) // 4 for i in range(im)] for j in range(jm)]
    return 5.0 + np.array(lon) / 1024.0, 60.0 + np.array(latt) / 1024.0


def _rect(sc):
    """the loaded rectangle [i0, i1, j0, j1] of rho cells (limits counted from the upper end resolved)"""
    sub = sc.get("subgrid") or [1, sc["imax"] - 1, 1, sc["jmax"] - 1]
    i0, i1, j0, j1 = sub
    return [i0 + (sc["imax"] if i0 < 0 else 0), i1 + (sc["imax"] if i1 < 0 else 0), j0 + (sc["jmax"] if j0 < 0 else 0), j1 + (sc["jmax"] if j1 < 0 else 0)]


def write_files(sc, work):
    import numpy as np
    N, jmax, imax = sc["N"], sc["jmax"], sc["imax"]
    names = []
    fnum = sc.get("frame_numbers") or list(range(len(sc["ftimes"])))
    sign = sc.get("field_sign", 1)
    parts = partition(len(sc["ftimes"]), sc["cuts"])
    fnames = file_names(sc, len(parts))
    for n, (a, b) in enumerate(parts):
        U, V, S = formula_fields(sc["fm"], fnum[a:b], N, jmax, imax, scalar=sc["hasscal"])
        if sc.get("levels_uv"):                      # per-level constant flow (TLC-generated composition scenarios)
            for k, (uu, vv) in enumerate(sc["levels_uv"]):
                U[:, k] = uu
                V[:, k] = vv
        U, V = sign * U, sign * V
        W = None
        if sc.get("wfield"):
            import numpy as _np
            kk, jj, ii = _np.meshgrid(_np.arange(N + 1), _np.arange(jmax), _np.arange(imax), indexing="ij")
            W = sign * _np.stack([((f + kk + ii + 2 * jj) % 5 - 2) / 64.0 for f in fnum[a:b]])      # (the mirrored flow of C10 has the opposite sign in every component)
        name = os.path.join(work, fnames[n])
        glon, glat = geo_tables(sc) if sc.get("geo") else (None, None)
        make_roms(name, imax=imax, jmax=jmax, N=N, times=sc["ftimes"][a:b], mask=np.array(sc["M"], float), lon=glon, lat=glat,
                  # land fill: ROMS' own fill value 1e37, or nan as other tools write it
                  h=np.array(sc["H"], float), hc=0.0, landfill=(((1.0e37 if sc["fm"].get("c", 0) % 4 == 1 else float("nan")), _rect(sc)) if sc["fm"].get("c", 0) % 2 else None), Cs_r=np.array([num / den for num, den in cs_of(sc)]),
                  dx=(np.array(sc["dxarr"], float) if sc.get("dxarr") else sc.get("dx", 128.0) * (2.0 if (n > 0 and sc.get("grid_variant_in_later_files")) else 1.0)),
                  dy=(np.array(sc["dyarr"], float) if sc.get("dyarr") else sc.get("dy")),
                  # u and v packed with different scale factors and differently in every file: scale_factor with add_offset = 0, scale_factor alone
                  # (CF: a missing add_offset is 0), plain float, packed around a non-zero offset
                  U=U, V=V, S=S, W=W, pack=([(2.0 ** -10, 2.0 ** -9, "both"), (2.0 ** -9, 2.0 ** -11, "sf_only"), None, (2.0 ** -10, 2.0 ** -10, "offset")][(n + sc.get("pack_phase", sc["fm"].get("c", 0))) % 4] if sc["pack"] else None),
                  spack=((0.5, 100.0) if sc.get("spack") else None))      # scalar packed with a non-trivial scale and offset
        names.append(name)
    return names


def force_trace(sc):
    import numpy as np
    from ladim.ROMS import Forcing, Grid
    from ladim.state import State
    from ladim.timekeeper import TimeKeeper
    work = tlc.scratch("lv_force_")
    ev, force = [], None
    try:
        write_files(sc, work)
        timer = TimeKeeper(start=iso(sc["start"]), stop=iso(sc["stop"]), dt=sc["dt"], time_reversal=sc["rev"])
        state = State(instance_variables=dict(temp=float), default_values=dict(temp=0.0))
        grid = Grid(os.path.join(work, "f_00.nc"), subgrid=tuple(sc["subgrid"]) if sc["subgrid"] else None)
        ev.append(dict(ev="setup", rev=sc["rev"], fm=sc["fm"], layout=layout_of(sc), nsteps=int(timer.Nsteps), Q=QH,
                       nexp=int(abs(sc["stop"] - sc["start"]) // sc["dt"]), late=int(sc.get("late", 0)),
                       hasscal=sc["hasscal"],
                       grid=dict(i0=int(grid.i0), i1=int(grid.i1), j0=int(grid.j0), j1=int(grid.j1), M=sc["M"], zr=levels(sc))))
        X = np.array(sc["xq"], float) / QH
        Y = np.array(sc["yq"], float) / QH
        Z = np.array(sc["z"], float)
        force = Forcing(dict(time=timer, grid=grid, state=state), os.path.join(work, "f_*.nc"),
                        extra_forcing=["temp"] if sc["hasscal"] else None)
        late = int(sc.get("late", 0))          # the state stays empty for the first `late` steps (forcing must advance anyway)
        if late == 0:
            state.append(X=X, Y=Y, Z=Z)
        for _ in range(timer.Nsteps):
            timer.update()
            if late and timer.step == late:
                state.append(X=X, Y=Y, Z=Z)
            force.update()
            if late and timer.step < late:
                continue
            e = dict(ev="obs", step=int(timer.step), x=sc["xq"], y=sc["yq"], z=sc["z"], den=DEN)
            off = False
            for key, fr in (("0", 0.0), ("1", 0.5), ("2", 1.0)):
                U, V = force.velocity(state.X, state.Y, state.Z, fr)
                e["u" + key], o1 = lat(U, UNIT * DEN)
                e["v" + key], o2 = lat(V, UNIT * DEN)
                off |= o1 or o2
            e["uvar"], o1 = lat(force.variables["u"], UNIT * DEN)
            e["vvar"], o2 = lat(force.variables["v"], UNIT * DEN)
            if sc["hasscal"]:
                e["temp"], o3 = lat(state["temp"], 1)
            else:
                e["temp"], o3 = [], False
            e["off"] = bool(off or o1 or o2 or o3)
            ev.append(e)
    except SystemExit as e:
        ev.append(dict(ev="crash", what=f"SystemExit({e.code})"))
    except Exception as e:
        import traceback
        tb = traceback.extract_tb(e.__traceback__)[-1]
        ev.append(dict(ev="crash", what=f"{type(e).__name__}: {str(e)[:100]} @{os.path.basename(tb.filename)}:{tb.lineno}"))
    finally:
        try:
            if force is not None:
                force.close()
        except Exception:
            pass
        shutil.rmtree(work, ignore_errors=True)
    if not ev or ev[0].get("ev") != "setup":
        ev.insert(0, dict(ev="setup", rev=sc["rev"], fm=sc["fm"], layout=layout_of(sc), nsteps=0, Q=QH, hasscal=sc["hasscal"],
                          nexp=int(abs(sc["stop"] - sc["start"]) // sc["dt"]), late=int(sc.get("late", 0)),
                          grid=dict(i0=1, i1=2, j0=1, j1=2, M=sc["M"], zr=levels(sc))))
    return ev


# ------------------------------------------------------------------------------------------------
# scenario generators (inputs only)
# ------------------------------------------------------------------------------------------------

def probes(rng, sub, imax, jmax, n, H, N):
    """quarter-cell lattice points of the valid region of the (sub)grid, incl. edges and corners of cells"""
    i0, i1, j0, j1 = sub if sub else (1, imax - 1, 1, jmax - 1)
    xs = list(range((2 * i0 + 1) * QH // 2 + 1, (2 * i1 - 3) * QH // 2))
    ys = list(range((2 * j0 + 1) * QH // 2 + 1, (2 * j1 - 3) * QH // 2))
    pts = [(x, y) for x in xs for y in ys]
    rng.shuffle(pts)
    hmax = max(max(r) for r in H)
    zc = [0, 5, 10, 15, 20, 25, 30, 35, 40, 45, 50, 60, 70, 85, hmax + 20]
    if n is None:        # small-scope exhaustive: every lattice point of the valid region x every depth of the ladder
        return [p[0] for p in pts for _ in zc], [p[1] for p in pts for _ in zc], [zz for _ in pts for zz in zc]
    pts = pts[:n]
    return [p[0] for p in pts], [p[1] for p in pts], [rng.choice(zc) for _ in pts]


def margin_probes(rng, sub, imax, jmax, n, H):
    """quarter-cell lattice points of the region Runge-Kutta stage positions are clipped to (xmin + 0.01 .. xmax - 0.01),
    with emphasis on the margins outside the valid region"""
    i0, i1, j0, j1 = sub if sub else (1, imax - 1, 1, jmax - 1)
    xs = list(range(i0 * QH + 1, (i1 - 1) * QH))
    ys = list(range(j0 * QH + 1, (j1 - 1) * QH))
    edge_x = [x for x in xs if x <= i0 * QH + 3 or x >= (i1 - 1) * QH - 3]
    edge_y = [y for y in ys if y <= j0 * QH + 3 or y >= (j1 - 1) * QH - 3]
    pts = set()
    while len(pts) < n:
        r = rng.random()
        if r < 0.4:
            pts.add((rng.choice(edge_x), rng.choice(ys)))
        elif r < 0.8:
            pts.add((rng.choice(xs), rng.choice(edge_y)))
        else:
            pts.add((rng.choice(edge_x), rng.choice(edge_y)))
    pts = sorted(pts)
    hmax = max(max(r) for r in H)
    zc = [0, 5, 10, 20, 30, 45, 60, 85, hmax + 20]
    return [p[0] for p in pts], [p[1] for p in pts], [rng.choice(zc) for _ in pts]


def margin_scenario(rng, n1=False):
    """C17 family: like the C02 family, but the probes hug the edges of the loaded rectangle; optionally one level only"""
    sc = space_scenario(rng)
    sub = sc["subgrid"]
    eff = sub
    if sub:
        eff = [sub[0], sub[1] + (sc["imax"] if sub[1] < 0 else 0), sub[2], sub[3] + (sc["jmax"] if sub[3] < 0 else 0)]
    if n1:
        sc["N"] = 1
        sc["cs"] = rng.choice(CS_CHOICES[1])
        sc["H"] = [[rng.choice([40, 80]) for _ in range(sc["imax"])] for _ in range(sc["jmax"])]
    sc["xq"], sc["yq"], sc["z"] = margin_probes(rng, eff, sc["imax"], sc["jmax"], 40, sc["H"])
    sc["kind"] = "margin"
    sc["cls"] = dict(sc["cls"], N=sc["N"])
    return sc


def time_scenario(rng):
    """C03 family: space-uniform field (only the time logic matters), arbitrary frame layout / file partition."""
    dt = rng.choice([30, 60, 600])
    imax, jmax, N = rng.choice([(6, 5, 2), (5, 6, 2), (6, 5, 3)])
    many = rng.random() < 0.04                                   # now and then a long series: 12-30 frames, one or two per file
    nfr = rng.randrange(12, 31) if many else rng.randrange(2, 7)
    gaps = [rng.choice([1, 1, 2, 3, 4] if not many else [1, 1, 2]) for _ in range(nfr - 1)]
    fsteps = [0]
    for g in gaps:
        fsteps.append(fsteps[-1] + g)
    ftimes = [s * dt for s in fsteps]
    ncut = rng.randrange(0, min(3, nfr - 1) + 1)
    cuts = sorted(rng.sample(range(1, nfr), ncut)) if ncut else []
    if rng.random() < 0.15 or many:
        cuts = list(range(1, nfr)) if (not many or rng.random() < 0.5) else list(range(2, nfr, 2))            # one frame per file (or two)
    a = rng.randrange(0, fsteps[-1])
    b = rng.randrange(a + 1, min(fsteps[-1], a + 7) + 1)
    rev = rng.random() < 0.5
    start, stop = (b * dt, a * dt) if rev else (a * dt, b * dt)
    H = [[40 if N == 2 else 60] * imax for _ in range(jmax)]       # level depths must be integers (metres): N = 3 needs h = 60
    M = [[1] * imax for _ in range(jmax)]
    fm = dict(a=0, b=0, c=rng.randrange(1, 40), d=rng.randrange(1, 30), e=0)
    xq, yq, z = probes(rng, None, imax, jmax, 4, H, N)
    fs = sorted(((start - t) if rev else (t - start)) // dt for t in ftimes)
    inrun = [s for s in fs if 0 <= s < (b - a)]
    return dict(kind="time", dt=dt, imax=imax, jmax=jmax, N=N, ftimes=ftimes, cuts=cuts, start=start, stop=stop, rev=rev,
                H=H, M=M, fm=fm, pack=rng.random() < 0.3, hasscal=rng.random() < 0.7, subgrid=None, xq=xq, yq=yq, z=z,
                late=(rng.randrange(1, b - a) if (b - a) >= 2 and rng.random() < 0.25 else 0),
                cls=dict(rev=rev, multifile=len(cuts) > 0, adjacent=any(g == 1 for g in gaps), frame_at_start=(0 in fs),
                         handovers=len([s for s in inrun if s > 0]), one_per_file=len(cuts) == nfr - 1))


def time_from_model(scn, rng):
    """materialise a layout chosen by TLC on the forcing-in-time model (MC_Frames, GEN configuration): frame steps in simulation
    order, file of each frame, direction, run length.  Real times: forward t = start + s dt, reversed t = start - s dt."""
    dt = rng.choice([30, 60, 600])
    imax, jmax, N = rng.choice([(6, 5, 2), (5, 6, 2)])
    fs, files, rev, nsteps = list(scn["fs"]), list(scn["file"]), bool(scn["rev"]), int(scn["nsteps"])
    span = max(fs) - min(fs) + 4
    start = (span + max(0, max(fs))) * dt if rev else (2 - min(0, min(fs))) * dt
    tt = [(start - s * dt) if rev else (start + s * dt) for s in fs]
    order = sorted(range(len(tt)), key=lambda k: tt[k])            # ascending real time = file order
    ftimes = [tt[k] for k in order]
    fl = [files[k] for k in order]
    cuts = [k for k in range(1, len(fl)) if fl[k] != fl[k - 1]]
    stop = start - nsteps * dt if rev else start + nsteps * dt
    H = [[40] * imax for _ in range(jmax)]
    M = [[1] * imax for _ in range(jmax)]
    fm = dict(a=0, b=0, c=rng.randrange(1, 40), d=rng.randrange(1, 30), e=0)
    xq, yq, z = probes(rng, None, imax, jmax, 3, H, N)
    inrun = [s for s in fs if 0 <= s < nsteps]
    return dict(kind="time", dt=dt, imax=imax, jmax=jmax, N=N, ftimes=ftimes, cuts=cuts, start=start, stop=stop, rev=rev,
                H=H, M=M, fm=fm, pack=rng.random() < 0.3, hasscal=True, subgrid=None, xq=xq, yq=yq, z=z, late=0,
                cls=dict(rev=rev, multifile=len(cuts) > 0, adjacent=any(b - a == 1 for a, b in zip(fs, fs[1:])), frame_at_start=(0 in fs),
                         handovers=len([s for s in inrun if s > 0]), one_per_file=len(cuts) == len(fs) - 1, model=True))


def space_scenario(rng, exhaustive=False):
    """C02 family: time-constant field with pairwise distinct-ish node values, masks, bathymetry, subgrids, packing."""
    dt = rng.choice([30, 60])
    imax, jmax = rng.choice([(8, 7), (7, 9), (10, 6)])
    N = rng.choice([2, 2, 3])
    hs = (40, 80) if N == 2 else (60, 120)
    M = [[1] * imax for _ in range(jmax)]
    for _ in range(rng.randrange(0, 7)):
        M[rng.randrange(jmax)][rng.randrange(imax)] = 0
    H = [[rng.choice(hs) for _ in range(imax)] for _ in range(jmax)]
    fm = dict(a=rng.randrange(1, 20), b=rng.randrange(1, 20), c=rng.randrange(1, 40), d=0, e=rng.randrange(0, 5))
    sub = None
    if rng.random() < 0.6:
        i0 = rng.randrange(1, 4); i1 = rng.randrange(i0 + 3, imax)
        j0 = rng.randrange(1, 3); j1 = rng.randrange(j0 + 3, jmax)
        sub = [i0, i1, j0, j1]
        if rng.random() < 0.3:
            sub = [i0, i1 - imax, j0, j1 - jmax]      # negative = counted from the upper end
    rev = rng.random() < 0.3
    start, stop = (60, 0) if rev else (0, 60)
    eff = sub
    if sub:
        eff = [sub[0], sub[1] + (imax if sub[1] < 0 else 0), sub[2], sub[3] + (jmax if sub[3] < 0 else 0)]
    xq, yq, z = probes(rng, eff, imax, jmax, None if exhaustive else 40, H, N)
    start, stop = (2 * dt, 0) if rev else (0, 2 * dt)
    cs = rng.choice(CS_CHOICES[N]) if N in CS_CHOICES else None        # other stretching curves than the uniform one
    return dict(kind="space", dt=dt, imax=imax, jmax=jmax, N=N, cs=cs, ftimes=[0, 2 * dt], cuts=[], start=start, stop=stop, rev=rev,
                H=H, M=M, fm=fm, pack=rng.random() < 0.4, hasscal=True, spack=rng.random() < 0.3, subgrid=sub,
                xq=xq, yq=yq, z=z,
                cls=dict(rev=rev, subgrid=sub is not None, land=any(0 in r for r in M), N=N))
