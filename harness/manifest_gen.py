"""Generates MANIFEST.json from the table below (one source of truth for the interface)."""
import json
import os

ROOT = os.path.dirname(os.path.dirname(os.path.abspath(__file__)))
PY = "/venv/bin/python"

CHECKS = {
    "C13": dict(
        level="model_checking",
        technique="TLA+ spec Clock/Period model-checked with TLC (MC_Clock, MC_Period) + trace validation of the real TimeKeeper/normalize_period against the same operators (ClockTrace)",
        text="TLC checks the clock laws (closed form = incremental clock, inverse conversions, floor, window, mirror) for every clock in the bound and the period grammar (scanner = declarative language) for every token string in the bound; every observable of the real TimeKeeper (ticks, all conversions, all units, time2step at every second) for every clock of the same bound, and normalize_period on every token string of the bound plus structured near-misses, are validated against the same operators by TLC.",
        note="Trusted: numpy's datetime64 parsing in the harness (ISO string -> integer seconds), TLC. Units d/D/W/ms of [value, unit] not exercised (docs and numpy disagree).",
        design="6 C13"),
    "C05": dict(
        level="model_checking",
        technique="TLA+ spec Pstate model-checked with TLC over all operation histories (MC_Pstate); TLC-generated behaviours replayed into the real State; recorded random and bulk (hundreds to thousands of particles) histories validated by PstateTrace; identity invariants of LadimTrace evaluated on every snapshot and record of complete runs",
        text="TLC checks the identity invariants (dense increasing pids, pid[k] >= k, never reused, values follow the particle, arrays equally long, compactify removes exactly the dead in order) over every history of append/kill/compactify/update within the bound; every behaviour TLC generates to the GEN depth plus simulated deep ones is stepped through the real ladim.state.State with the projection compared after each operation, and long random histories recorded from the real State are validated against the same operators.",
        note="Trusted: the mapping of abstract operations to State calls (as LADiM's own release/IBM/output modules use them), TLC.",
        design="6 C05"),
    "C04": dict(
        level="model_checking",
        technique="TLA+ spec Release (declarative schedule in simulation time + operational algorithm shaped like release.py) model-checked with TLC (MC_Release); trace validation of the real ParticleReleaser stepped through whole windows (ReleaseTrace)",
        text="TLC checks operational schedule = declarative schedule (rows, order, multiplicity, window [start, stop), refusal iff empty) for every table/window/direction/mode/frequency in the bound; thousands of generated release files (column orders, header or names, separators, time spellings, mult 0-3, extra int/float columns, forward/reversed, discrete/continuous) are run through the real TimeKeeper + State + ParticleReleaser and every step's new particles (count, pids, payload, release_time) are validated by TLC against the declarative schedule.",
        note="Quantifier of C04: table sorted in simulation order, times on the model grid, continuous file times on the tick grid. lon/lat conversion is decided under C16. Trusted: numpy datetime parsing in the harness, TLC.",
        design="6 C04"),
    "C03": dict(
        level="model_checking",
        technique="TLA+ spec Frames (declarative Lerp/latest-frame + operational incremental algorithm with file switching) model-checked with TLC (MC_Frames); exact lattice trace validation of the real TimeKeeper+Grid+Forcing (ForceTrace) on random layouts and on every small layout enumerated by TLC on the model (GEN_Frames, spec -> code)",
        text="TLC checks that the incremental algorithm (pre-roll, hand-over, scalars, read-ahead, increment, file switch) keeps the field equal to the linear interpolation of the bracketing frames at frac 0, 1/2, 1 and the scalar equal to the latest frame, and that every read hits an existing frame of the right file, for every frame layout/partition/offset/run length/direction in the bound; thousands of generated forcing file sets are run through the real Forcing and velocity(0|1/2|1), variables[u|v] and scalar forcing at every step are validated by TLC with integer equality.",
        note="Frames on the model time grid; node values chosen so float32 arithmetic is exact. Trusted: netCDF4 writing of the inputs, TLC.",
        design="6 C03"),
    "C02": dict(
        level="model_checking",
        technique="TLA+ spec Interp/Vertical/Fields: sampling geometry model-checked with TLC (MC_Interp) for all sub-rectangles/masks/positions; exact lattice trace validation of the real Grid+Forcing on identifying node values (ForceTrace): random probes plus every quarter-cell point x depth ladder on a few grids, three stretching curves, packed / float / offset storage differing from file to file, ROMS and nan land fill values",
        text="TLC checks, for every legal sub-rectangle, window mask and quarter-cell position of the valid/clipped region, that the local index arithmetic denotes the declarative corners, stays inside the loaded arrays, masks exactly the land faces, and that the weights are convex and exact on linear fields; generated grids (land, variable bathymetry, 2-3 levels, sub-rectangles, packed/float) with node values that identify every index and weight are run through the real Grid and Forcing and every probe value (velocity at three fractional times, variables, scalar) is validated by TLC with integer equality.",
        note="Lattice probes only (quarter cells; level gaps 20/40 m); at exact cell edges either neighbouring own cell is accepted. Off-lattice numerics are not examined (DESIGN 7).",
        design="6 C02"),
    "C19": dict(
        level="model_checking",
        technique="TLA+ composition model Ladim.tla model-checked with TLC (MC_Ladim: ProtocolOrder, RecordIsForcedState, RecordsFaithful); trace specification LadimTrace validated by TLC against complete ladim.main runs with all eight modules replaced by recording plug-ins given by file path; scenarios chosen by TLC on the composed model replayed through ladim.main with the model's records as prediction",
        text="Every recorded end-to-end execution must be a behaviour of the composed specification: events in protocol order and multiplicity, forcing evaluated on exactly the particle set after release (incl. new ones) with variables equal to the velocity at the present positions, the record taken from that state, the IBM seeing the moved state once per step (ageing by one, scripted kills/freezes effective from the next record), every module's close called exactly once after the last step; the plug-ins are loaded by path (the IBM from a per-scenario file that shadows an importable module name and carries a token), so a run that ignored or cached them is rejected. TLC also enumerates the composed abstract model (release groups x scripted kills x output periods) and 250+ of its scenarios are materialised and run; which identifiers each record holds must be what the model predicted.",
        note="Random scenario space (grids with land, irregular multi-file forcing, fwd/rev, discrete/continuous release, EF/RK2/RK4, sparse/dense, split files). Trusted: LADiM's module loader itself delivers the plug-ins (that is part of the property), TLC.",
        design="6 C19"),
    "C07": dict(
        level="model_checking",
        technique="TLA+ spec OutFile (declarative schedule + operational cursor arithmetic with predicted record count) model-checked with TLC (MC_OutFile); liveness of the composed model under weak fairness (every run ends having written exactly the scheduled records: MC_Ladim FairSpec, Terminates, AllRecordsWritten); TLA+ spec FileName of the documented file numbering with its chain laws model-checked over all short stems (MC_FileName) and used by the trace specification for the names found on disk; exhaustive trace validation of ladim.main over (run length, period, split, layout, pvars, direction) with LadimTrace",
        text="TLC checks for every run length, period, split and cold/warm start in the bound that the cursor arithmetic never writes into a closed file, writes exactly the scheduled records, fills files with numrec records (last fewer), writes particle variables to every file and closes it; every (nsteps, ops, numrec) combination of the bound is run through ladim.main and the normal exit, number of records, file sizes, numbering, and closing are validated by TLC against the history of output events.",
        note="Cold start in trace validation (warm start: model-checked here, trace-validated under C08).",
        design="6 C07"),
    "C06": dict(
        level="model_checking",
        technique="LadimTrace: output files decoded with netCDF4 are validated by TLC against the history of state snapshots recorded when output.update() was called; OutFile model-checked (MC_OutFile); dense layout on the composed model (MC_Ladim_dense: DenseAddressing in the uninterrupted and the restarted run; the pinned addressing by list position refuted by a warm start and by compaction after every step); restarted runs that write the dense layout",
        text="For every recorded run TLC requires: records retrievable by the cumulative particle_count rule (counts sum to the instance dimension), record k = the living particles of the snapshot at the k-th due output call with exactly the state's values (pid, X, Y, Z, age, farm), time coordinate = model time with the stated reference, particle variables at index pid for every particle released up to the file's last record, dense layout decoded at [time, pid].",
        note="Two thirds of the scenarios are directed (2-5 scripted deaths/freezes, particle variables). Values compared exactly (f8/i4 output).",
        design="6 C06"),
    "C09": dict(
        level="model_checking",
        technique="Tracker.tla model-checked with TLC (MC_Tracker: StaysInWater inductive step, DeadStayDead, InactiveNotMoved, KilledNotMoved for all masks / positions / displacements); LadimTrace move-outcome clauses (kill / inactive / land-cancel / moved with interval semantics) evaluated by TLC on every tracker step of directed coast scenarios, with vacuity counters per outcome; TrackTrace on the real Tracker with scripted diffusion among land cells and on the small-scope exhaustive space of MC_Tracker (every land pattern of a 3 x 2 window x quarter-cell positions x 169 displacements)",
        text="For every living particle of every recorded tracker step TLC recomputes the candidate position from the velocities the tracker was given (scheme tableau) and requires the logged outcome to be one of: killed (candidate outside the valid region; dead and inactive, not moved), inactive (not moved), cancelled (candidate on land; not moved), moved; living particles are in the valid region, in a sea cell, finite; no dead particle is alive again in any later snapshot or record.",
        note="Interval semantics within 4/65536 cell of the margin or of a cell edge. Velocity correctness is C02/C03.",
        design="6 C09"),
    "C01": dict(
        level="model_checking",
        technique="Tableau.tla order conditions model-checked (MC_Tableau) and proved for the two-stage family (TLAPS); LadimTrace stage-protocol and displacement clauses validated by TLC on recorded velocity requests of the real tracker; HelperTrace on ladim.analytical.get_velocity1/2/4 with a scripted sample function; measured convergence slopes checked against wide bands",
        text="TLC proves the order conditions (1, 2, 4) of the tableaux the trace specification uses; for every recorded tracker step the scheme's stage evaluations must occur in order among the recorded velocity requests - right fractional times, stage positions X + c_k dt/dx U_{k-1} (clipped) derived from the previous stage's logged result - and moved particles must land at X + dt/dx sum b_k U_k (dy for Y).",
        note="Sheared time-dependent fields, dx/dy in {128, 256} independently. The limit statement (convergence order) follows from tableau + conformance; the measured slopes (analytic time-dependent rotation, dt halved three times) enter through the wide-band clause order.slope_in_band only.",
        design="6 C01"),
    "C12": dict(
        level="model_checking",
        technique="TLA+ spec Vertical (Z2S lookup, rational SDepth) model-checked with TLC (MC_Vertical); trace validation of the real z2s / sdepth / s_stretch / Grid.z_r,z_w (VertTrace)",
        text="TLC checks the lookup identity (pair exists, weight in [0,1], weighted level depth = clamped depth) for every strictly increasing integer level column and depth in the bound and the ordering/interleaving of rational s-level depths for every monotone stretching function on the staggered grid, both transforms; the real z2s is validated exactly on enumerated integer columns, the real sdepth exactly on rational inputs, and s_stretch curves / Grid level depths / lookups on real levels are recorded over a parameter lattice and their invariants evaluated by TLC with interval semantics.",
        note="Transcendental stretching curves are sampled on a parameter lattice (not exhaustive in parameter space). hc <= h.",
        design="6 C12"),
    "C16": dict(
        level="model_checking",
        technique="TLA+ spec Geo (sample2D, bilinear lon/lat) model-checked with TLC (MC_Geo); trace validation of the real sample2D (incl. nan / inf / fill values under the mask), Grid.xy2ll / ll2xy / lonlat (bilinear and nearest), onland / atsea, lon/lat release and lon/lat output (GeoTrace)",
        text="TLC checks exactness on bilinear fields, convexity, masked nodes ignored and the outside rule for every small field/mask/position in the bound; the real sample2D is validated exactly on random integer fields/masks/positions (incl. outside with substitute 0, undefined values), xy2ll exactly on lattice probes of curved coordinate tables for random sub-rectangles, the ll2xy round trip and releases given by lon/lat through their post-condition (interpolated lon/lat at the resulting position equal the given ones within the solver tolerance), and lon/lat written with a record (sparse and dense) as the bilinear value at X, Y of the same record.",
        note="Newton convergence itself is not modelled; every recorded inversion is checked through its residual. Coordinate tables on a 2^-10 degree lattice.",
        design="6 C16"),
    "C15": dict(
        level="model_checking",
        technique="TLA+ spec Tracker (MoveV / Reflect) model-checked with TLC (MC_Tracker: InColumn for all depths and displacements); exact lattice trace validation of the real Tracker with scripted forcing and scripted random generator (TrackTrace), random scenarios plus every start depth x displacement on a 1 m ladder; LadimTrace move.z_unchanged on complete runs without vertical motion",
        text="TLC checks 0 <= Z' <= h for every depth, bottom depth and vertical displacement |dz| < h in the bound; real tracker steps with vertical diffusion (injected draws) and/or vertical advection over cell-to-cell varying bathymetry, start depths at 0 / near 0 / mid / near h / h, with simultaneous horizontal advection across cells, are validated by TLC: the new depth equals the reflection about surface and bottom of the cell occupied when the step began, lies in that water column whenever |dz| < h, and is unchanged with both switched off.",
        note="Scripted forcing: velocities uniform per particle so that displacements are on the lattice. The composition aspect (stale per-particle forcing arrays) is C14.",
        design="6 C15"),
    "C11": dict(
        level="other",
        technique="Tracker.tla random-walk algebra model-checked under an exact symmetric unit-variance distribution (MC_Walk: all assignments of +-1 draws enumerated - zero mean, variance adds up linearly, no covariance between directions / particles; control with a shared block refuted) and bound to the real Tracker by exact lattice trace validation with a scripted random generator (TrackTrace); seeded statistics of 10^5-particle clouds evaluated by TLC (StatTrace) for the distributional residue",
        text="Decided exactly: displacement = sqrt(2 D dt) xi / dx per horizontal direction and sqrt(2 Dz dt) xi in depth for (D, dt) over four orders of magnitude, one fresh standard-normal draw per particle x direction x step (U/V block order either way), D and Dz kept apart when both are on, no draw and identical results when the coefficients are zero. Not decidable with TLA+: that numpy's generator is standard normal and independent - covered by seeded statistics (mean, variance 2Dt / 2Dzt, U-V covariance, lag-1) inside 6 sigma bands.",
        note="level 'other': exact conformance for the code's contribution + exploration-level statistics for the generator (DESIGN 7).",
        design="6 C11"),
    "C20": dict(
        level="fault_enumeration",
        technique="TLA+ spec Startup (validity predicate over the described set-up, reusing Clock/Release) decides validity; its forcing-coverage test is model-checked against the operational forcing model (MC_Startup: a set-up that passes never extrapolates, a refused one lacks forcing in the window); StartupTrace validates the outcome of ladim.main for every base scenario x every single fault",
        text="Every base scenario {forward, reversed} x {single, multi-file} x {discrete, continuous} x each of 27 single faults is materialised and run through ladim.main with recording plug-ins; TLC decides from the description of the faulted set-up whether it is valid and requires: invalid => error exit before the first step and no output record; valid => the run completes.",
        note="Any error exit during start-up counts as refusal. Single faults only.",
        design="6 C20"),
    "C17": dict(
        level="model_checking",
        technique="Index arithmetic of Interp/Vertical proved in bounds by TLC (MC_Interp InBounds/OwnCellLoaded, MC_Vertical LookupLaw); conformance under NUMBA_BOUNDSCHECK=1: ForceTrace with edge-hugging probes and LadimTrace on fast boundary-bound RK runs",
        text="TLC proves for every sub-rectangle and every position of the clipped region that all four corners and both levels lie inside the loaded arrays. The code is bound to those indices by probes whose node values identify each index (a wrapped negative index changes the integer; a positive overrun raises IndexError under numba's bounds checker), concentrated on the margins of the loaded rectangle, and by end-to-end runs with up to ~0.85 cell per step towards every open boundary with RK2/RK4 whose stage positions must be the clipped ones.",
        note="The memory access itself is observed only on executed scenarios.",
        design="6 C17"),
    "C14": dict(
        level="model_checking",
        technique="MC_Ladim (Independent, CacheAligned; control configuration with the pinned cache placement refuted by TLC); PairTrace (relations between paired runs: same / subset / shift, per-particle keys and bit-for-bit digests) decided by TLC on families of real runs, each run validated by LadimTrace; families with release rows given by longitude / latitude on curved grids (the conversion of a row must not depend on the other rows)",
        text="For every family TLC requires: the repeated run reproduces records, files and particle variables exactly (digests of the raw bytes); with single release rows removed or rows reordered every remaining particle (matched by release row and occurrence) has the identical trajectory and age in every record up to renumbering; with every time of the set-up shifted by whole steps all records are identical at the shifted times. Deaths of whole release rows are scheduled right before output steps and a quarter of the families use vertical advection, the compositions in which a stale per-particle forcing cache shows.",
        note="Diffusion off. In continuous mode rows are only removed from release times that keep another row (removing a whole file time changes the schedule by definition).",
        design="6 C14"),
    "C10": dict(
        level="model_checking",
        technique="Clock/Frames/Release specs written in simulation time (one scenario for both directions; MC_Clock MirrorLaw, MC_Frames reversed traversal); LadimTrace on reversed runs (clock, release times, output time coordinate); PairTrace mirror relation on reversed run vs forward run on mirrored, sign-flipped files (all three velocity components, with and without vertical advection)",
        text="Every reversed scenario is run reversed and forward on harness-generated mirrored files with negated velocity; TLC validates both traces against the composed specification (clock reads S, S-dt, ...; releases at their stated times; time coordinate) and decides the pairing: record k of the reversed run and record k of the mirrored run hold the same particles (pids) with bit-identical positions, at mirrored times.",
        note="Mirrored inputs are generated by the harness (frame order reversed, t -> axis - t, fields negated).",
        design="6 C10"),
    "C08": dict(
        level="model_checking",
        technique="MC_Ladim RestartEq (warm start from every record of every small scenario; control configuration restoring the identifier counter from the highest pid refuted by TLC; MC_Ladim_dense: a restarted run that writes the dense layout addresses columns by identifier, the pinned addressing by list position refuted); LadimTrace with a warm-start catch-up cycle whose specification state is initialised from the uninterrupted run's own recorded history; PairTrace restart relation; warm output schedule model-checked (MC_OutFile)",
        text="For every uninterrupted split run a warm-started run from every completed output file is executed. TLC validates the restarted run's whole trace against the composed specification started from the uninterrupted run's recorded state at the restart record (catch-up step without output, releases at the start time skipped, identifiers continuing, file numbers continuing) and decides the relation: every record written after the restart and before the (step-aligned) stop time equals the uninterrupted run's record at that time - particle sets, identifiers, positions, ages (bit-for-bit digests) - and the particle variables agree.",
        note="Forward time, diffusion off. Output without particle variables falls back to max(pid)+1 for the identifier counter (documented limitation of the repaired code, not exercised).",
        design="6 C08"),
    "C18": dict(
        level="model_checking",
        technique="TLA+ spec Config (feature vector -> three renderings -> meaning) model-checked with TLC (MC_Config); configure() on the three generated documents validated against Config!Canon (ConfigTrace); outputs of the three runs related by PairTrace (same); features incl. user IBM with option and instance variable, extra forcing, version-1 vocabulary as documented (ibm_forcing, ladim.gridforce.ROMS, file names in `files`), distinct explicit grid file, every glob spelling, native date-times, period spellings, empty sections as bare YAML keys, release header vs names, default forcing module",
        text="TLC checks for every feature vector that the v2 and v1 renderings mean the canonical configuration (grid file = explicit or first forcing file also for a wildcard, sub-rectangle kept, optional sections empty or omitted); for generated feature vectors the three documents (YAML v2, TOML v2, legacy YAML v1) are written, configure() of each is projected and compared by TLC with the canonical configuration, and ladim.main on each must produce identical records, file names and particle variables (bit-for-bit digests).",
        note="Default modules (no recording plug-ins: the v1 spelling cannot name them). Diffusion off.",
        design="6 C18"),
}

NOT_YET = {}


def main():
    props = [json.loads(l) for l in open(os.path.join(ROOT, "properties.jsonl"))]
    checks, na = [], []
    for p in props:
        pid = p["id"]
        if pid in CHECKS:
            c = CHECKS[pid]
            checks.append(dict(
                property_id=pid,
                quick_cmd=f"{PY} run.py check {pid} --tier quick",
                thorough_cmd=f"{PY} run.py check {pid} --tier thorough",
                evidence_file=f"/verif/evidence/{pid}.json",
                replay_cmd_template=f"{PY} run.py replay {{path}}",
                engine="tlc",
                level_claimed=dict(category=c["level"], text=c["text"], design_ref="DESIGN.md section " + c["design"]),
                level_note=c["note"], technique=c["technique"]))
        else:
            na.append(dict(property_id=pid, reason=NOT_YET.get(pid, "check not built yet in this revision of /verif (planned in DESIGN.md section 6); not claimed until its TLA+ specification and conformance harness are committed")))
    man = dict(
        version=1,
        setup_cmd=f"{PY} run.py setup",
        hooks=dict(guard="BJORNAA_LADIM2_VERIF",
                   enable="no source hooks: recording plug-in modules (harness/plugins) are loaded through LADiM's own `module: <path>` mechanism; the checks export BJORNAA_LADIM2_VERIF=1 for uniformity",
                   baseline_off_cmd="cd /repo && /venv/bin/python -m pytest -ra -q -p no:cacheprovider --timeout=900 --continue-on-collection-errors",
                   source_commits=[], add_only=True),
        engines=[dict(name="tlc", path="/opt/veriftools/tla/tla2tools.jar", serves_properties=sorted(CHECKS),
                      kind_free_text="TLA+ specifications in /verif/spec checked by TLC: exhaustive model checking (MC_*.tla), batched trace validation of executions of the real code (*Trace.tla), replay of TLC-generated behaviours into the real code"),
                 dict(name="tlapm", path="/opt/veriftools/tlapm", serves_properties=["C01", "C02", "C03", "C07", "C08", "C12", "C13", "C15", "C17", "C20"],
                      kind_free_text="TLA+ proof system (SMT back end): unbounded versions of single-operator laws in /verif/spec/proofs/Proofs.tla, run by the checks and reported under coverage.proofs; supplements, never decides")],
        checks=checks,
        notes="See DESIGN.md. run.py exit codes: 0 held / only known findings, 1 VIOLATION, 2 machinery failure.",
        not_applicable=na)
    with open(os.path.join(ROOT, "MANIFEST.json"), "w") as f:
        json.dump(man, f, indent=1)
    print("MANIFEST.json:", len(checks), "checks,", len(na), "not claimed")


if __name__ == "__main__":
    main()
