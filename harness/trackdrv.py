"""Driver: the real Tracker + Grid + State with a scripted forcing and a scripted random generator -> TrackTrace events."""
from __future__ import annotations

import os
import shutil

from . import tlc
from .enc import iso, lat

QP, QZ = 256, 16


class ScriptedRNG:
    """Hands out an injective stream of lattice values (quarters) and records how it was asked."""

    def __init__(self, stream):
        self.stream = list(stream)
        self.pos = 0
        self.calls = []
        self.given = []

    def _take(self, size):
        import numpy as np
        n = int(np.prod(size)) if size is not None else 1
        vals = [self.stream[(self.pos + k) % len(self.stream)] for k in range(n)]
        self.pos += n
        self.given += vals
        a = np.array(vals, float) / 4.0
        return a.reshape(size) if size is not None else float(a[0])

    def normal(self, loc=0.0, scale=1.0, size=None):
        self.calls.append(dict(std=bool(loc == 0.0 and scale == 1.0), n=int(size if isinstance(size, int) else 1 if size is None else __import__("numpy").prod(size))))
        return loc + scale * self._take(size)

    def standard_normal(self, size=None, **kw):
        self.calls.append(dict(std=True, n=int(size if isinstance(size, int) else 1 if size is None else __import__("numpy").prod(size))))
        return self._take(size)


class ScriptedForcing:
    """uniform-in-space velocity per particle (so all Runge-Kutta stages agree) + vertical velocity"""

    def __init__(self):
        self.variables = {}
        self.u = self.v = None

    def velocity(self, X, Y, Z, fractional_step=0, method="bilinear"):
        return self.u.copy(), self.v.copy()


def track_trace(sc):
    import numpy as np
    from ladim.ROMS import Grid
    from ladim.state import State
    from ladim.timekeeper import TimeKeeper
    from ladim.tracker import Tracker
    from .world import make_roms
    work = tlc.scratch("lv_trk_")
    sub = sc["subgrid"] or [1, sc["imax"] - 1, 1, sc["jmax"] - 1]
    i0, i1, j0, j1 = sub
    ev = [dict(ev="setup", nst=len(sc["steps"]), dt=sc["dt"], dx=sc["dx"], dy=sc["dy"], adv=sc["adv"], s16=sc["s16"], sz16=sc["sz16"], vadv=sc["vadv"],
               grid=dict(i0=i0, i1=i1, j0=j0, j1=j1, mask=[r[i0:i1] for r in sc["M"][j0:j1]],
                         H=[[h * QZ for h in r[i0:i1]] for r in sc["H"][j0:j1]]))]
    try:
        fn = os.path.join(work, "g.nc")
        make_roms(fn, imax=sc["imax"], jmax=sc["jmax"], N=2, times=[0], mask=np.array(sc["M"], float), h=np.array(sc["H"], float),
                  dx=float(sc["dx"]), dy=float(sc["dy"]))
        grid = Grid(fn, subgrid=tuple(sc["subgrid"]) if sc["subgrid"] else None)
        timer = TimeKeeper(start=iso(0), stop=iso(sc["dt"] * 100), dt=sc["dt"])
        state = State()
        force = ScriptedForcing()
        tr = Tracker(advection=sc["adv"], diffusion=sc["D"], vertdiff=sc["Dz"], vertical_advection=sc["vadv"],
                     modules=dict(time=timer, state=state, grid=grid, forcing=force))
        rng = ScriptedRNG(sc["stream"])
        tr.rng = rng
        state.append(X=np.array(sc["x"], float) / QP, Y=np.array(sc["y"], float) / QP, Z=np.array(sc["z"], float) / QZ)
        state["active"] = np.array(sc["active"], bool)
        if sc.get("dead"):          # particles that are already dead (killed by an IBM, still in the arrays: the dense layout never removes them)
            state["alive"] = ~np.array(sc["dead"], bool)

        def snap():
            x, o1 = lat(state.X, QP)
            y, o2 = lat(state.Y, QP)
            z, o3 = lat(state.Z, QZ)
            return dict(x=x, y=y, z=z, alive=[bool(a) for a in state.alive], active=[bool(a) for a in state.active]), (o1 or o2 or o3)

        for kst, st in enumerate(sc["steps"]):
            n = len(state)
            force.u = np.array(st["un"][:n], float) / 128.0
            force.v = np.array(st["vn"][:n], float) / 128.0
            force.variables["w"] = np.array(st["wn"][:n], float) / QZ / sc["dt"]
            pre, o1 = snap()
            k0 = len(rng.given)
            c0 = len(rng.calls)
            tr.update()
            post, o2 = snap()
            ev.append(dict(ev="tstep", k=kst + 1, pre=pre, post=post, un=st["un"][:n], vn=st["vn"][:n], wn=st["wn"][:n],
                           draws=rng.given[k0:], calls=rng.calls[c0:], off=bool(o1 or o2)))
    except SystemExit as e:
        ev.append(dict(ev="crash", what=f"SystemExit({e.code})"))
    except Exception as e:
        import traceback
        tb_ = traceback.extract_tb(e.__traceback__)[-1]
        ev.append(dict(ev="crash", what=f"{type(e).__name__}: {str(e)[:100]} @{os.path.basename(tb_.filename)}:{tb_.lineno}"))
    finally:
        shutil.rmtree(work, ignore_errors=True)
    return ev


# (D, dt, s) with 2 D dt = s^2 : sigma dt = s metres, over four orders of magnitude of D
DIFF = [(1.0, 32, 8), (4.0, 32, 16), (0.25, 128, 8), (100.0, 50, 100), (0.0025, 50, 0.5), (16.0, 8, 16)]
VDIFF = [(0.01, 50, 1), (0.0025, 50, 0.5), (1.0, 32, 8), (0.015625, 32, 1), (0.5, 64, 8), (0.0625, 8, 1)]


def scenario(rng, *, horiz_diff, vert_diff, vadv, advect, land, flat):
    imax, jmax = rng.choice([(10, 9), (8, 12), (12, 8)])
    M = [[1] * imax for _ in range(jmax)]
    if land:
        for _ in range(rng.randrange(3, 10)):
            M[rng.randrange(1, jmax - 1)][rng.randrange(1, imax - 1)] = 0
    H = [[(rng.choice([20, 40, 80]) if not flat else 40) for _ in range(imax)] for _ in range(jmax)]
    sub = None
    if rng.random() < 0.3:
        i0 = rng.randrange(1, 3); i1 = rng.randrange(max(i0 + 5, imax - 3), imax)
        j0 = rng.randrange(1, 3); j1 = rng.randrange(max(j0 + 5, jmax - 3), jmax)
        sub = [i0, i1, j0, j1]
    i0, i1, j0, j1 = sub if sub else (1, imax - 1, 1, jmax - 1)
    D, dt, s = (0.0, rng.choice([32, 64]), 0)
    Dz, sz = 0.0, 0
    if horiz_diff:
        D, dt, s = rng.choice(DIFF)
    if vert_diff:
        cands = [v for v in VDIFF if v[1] == dt] or None
        if cands is None:
            if horiz_diff:
                # both on with different coefficients: pick Dz such that 2 Dz dt is a perfect square for this dt
                Dz, sz = {32: (0.015625, 1), 128: (0.00390625, 1), 50: (0.01, 1), 8: (0.0625, 1)}[dt]
            else:
                Dz, dt, sz = rng.choice(VDIFF)
        else:
            Dz, _, sz = rng.choice(cands)
    dx = rng.choice([128, 256]) if not horiz_diff else 128
    dy = rng.choice([128, 256]) if not horiz_diff else 128
    if horiz_diff and (s * 16 * 4) % 128 != 0:      # s = 0.5 m: finer position lattice needed -> use dx = 32
        dx = dy = 32
    # particles: sea cells of the valid region, odd 1/256 offsets (never on a cell edge), depths inside the column
    cells = [(i, j) for j in range(j0 + 1, j1 - 1) for i in range(i0 + 1, i1 - 1) if M[j][i] > 0]
    if not cells:
        M[j0 + 1][i0 + 1] = 1
        cells = [(i0 + 1, j0 + 1)]
    n = rng.randrange(3, 9)
    x, y, z, act = [], [], [], []
    for _ in range(n):
        i, j = rng.choice(cells)
        x.append(i * QP + rng.choice(range(-127, 128, 2)))
        y.append(j * QP + rng.choice(range(-127, 128, 2)))
        z.append(rng.choice([0, 1, H[j][i] * QZ // 2, H[j][i] * QZ - 1, H[j][i] * QZ]))
        act.append(rng.random() > 0.15)
    dead = [rng.random() < 0.1 for _ in range(n)]
    steps = []
    k = 2 * dt
    unit = max(1, (dx // k) if dx % k == 0 and dx >= k else 1)
    for _ in range(rng.randrange(2, 6)):
        def vel(d):
            # even numbers whose displacement un*2*dt/d is an even integer number of 1/256 cells
            base = (2 * d) // __import__("math").gcd(2 * d, 2 * dt)
            return rng.randrange(-3, 4) * base * rng.choice([1, 2, 8]) if advect else 0
        wn = [rng.randrange(-6, 7) * 4 if vadv else 0 for _ in range(n)]
        steps.append(dict(un=[vel(dx) for _ in range(n)], vn=[vel(dy) for _ in range(n)], wn=wn))
    stream = [v for v in range(-9, 10) if v != 0]
    rng.shuffle(stream)
    stream = (stream * 30)[: 400]
    stream = [v * (2 if (s * 16 * 4) % dx == 0 and ((s * 16 * 4) // dx) % 2 == 1 else 1) for v in stream]
    return dict(imax=imax, jmax=jmax, M=M, H=H, subgrid=sub, dt=dt, dx=dx, dy=dy, adv=rng.choice(["EF", "RK2", "RK4"]) if advect else "",
                D=D, Dz=Dz, s16=int(round(s * 16)), sz16=int(round(sz * 16)), vadv=vadv, x=x, y=y, z=z, active=act, dead=dead, steps=steps, stream=stream,
                cls=dict(hdiff=horiz_diff, vdiff=vert_diff, vadv=vadv, advect=advect, flat=flat))
