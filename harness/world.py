"""Lattice-world input builders: ROMS-like NetCDF grid/forcing files, release files, configuration files.

Only *inputs* are built here; expected values are never computed in Python (TLC does that from the
scenario description)."""
from __future__ import annotations

import numpy as np
from netCDF4 import Dataset

from .enc import T0, iso

UNIT = 1024  # velocity unit of the node formulas: 1/1024 m/s


# ---- node-value formulas shared (as *input generators*) with spec/Fields.tla -------------------------
def node(fm, f, k, j, i, c):
    """velocity node value in 1/1024 m/s: frame f, level k (0-based), global u/v array index (j, i), component c"""
    return 24 * (((fm["a"] * i + fm["b"] * j + fm["c"] * k + fm["d"] * f * f + fm["e"] * i * j + 17 * c) % 97) - 48)


def scal(f, k, j, i):
    return 1000 * f + 100 * k + 10 * j + i


def make_roms(fname, *, imax, jmax, N, times, mask=None, h=None, dx=128.0, dy=None, hc=0.0, Cs_r=None, Cs_w=None,
              lon=None, lat=None, U=None, V=None, S=None, W=None, pack=None, spack=None, Vtransform=None, landfill=None,
              t0="2000-01-01 00:00:00", with_vertical=True):
    """Write a ROMS-like file.  U: (nt, N, jmax, imax-1), V: (nt, N, jmax-1, imax), S: (nt, N, jmax, imax),
    W: (nt, N+1, jmax, imax) in m/s (float) ; pack = scale_factor for int16 packing of u, v ;
    spack = (scale, offset) for the scalar."""
    dy = dx if dy is None else dy
    nt = len(times)
    with Dataset(fname, "w", format="NETCDF4") as nc:
        for d, n in dict(xi_rho=imax, eta_rho=jmax, xi_u=imax - 1, eta_u=jmax, xi_v=imax, eta_v=jmax - 1,
                         s_rho=N, s_w=N + 1).items():
            nc.createDimension(d, n)
        nc.createDimension("ocean_time", None)
        v = nc.createVariable("ocean_time", "f8", ("ocean_time",))
        v.units = f"seconds since {t0}"
        v[:] = np.array(times, float)

        def mk(name, dims, val, dt="f8", **att):
            v = nc.createVariable(name, dt, dims)
            v[:] = val
            for a, b in att.items():
                setattr(v, a, b)

        jj, ii = np.meshgrid(np.arange(jmax), np.arange(imax), indexing="ij")
        mk("h", ("eta_rho", "xi_rho"), np.full((jmax, imax), 40.0) if h is None else h)
        mk("mask_rho", ("eta_rho", "xi_rho"), np.ones((jmax, imax)) if mask is None else mask)
        mk("pm", ("eta_rho", "xi_rho"), 1.0 / np.asarray(dx, float) * np.ones((jmax, imax)))
        mk("pn", ("eta_rho", "xi_rho"), 1.0 / np.asarray(dy, float) * np.ones((jmax, imax)))
        mk("angle", ("eta_rho", "xi_rho"), 0.0)
        mk("lon_rho", ("eta_rho", "xi_rho"), 5 + ii / 64.0 + jj / 512.0 if lon is None else lon)
        mk("lat_rho", ("eta_rho", "xi_rho"), 60 + jj / 128.0 - ii / 1024.0 if lat is None else lat)
        if with_vertical:
            mk("hc", (), hc)
            mk("Cs_r", ("s_rho",), -1 + (0.5 + np.arange(N)) / N if Cs_r is None else Cs_r)
            mk("Cs_w", ("s_w",), np.linspace(-1, 0, N + 1) if Cs_w is None else Cs_w)
            if Vtransform is not None:
                mk("Vtransform", (), Vtransform, "i4")
        U = np.zeros((nt, N, jmax, imax - 1)) if U is None else U
        V = np.zeros((nt, N, jmax - 1, imax)) if V is None else V
        if landfill is not None and not pack and mask is not None:
            # as in real ROMS files: velocity points on or next to land hold the fill value (they must be masked, not interpolated).
            # landfill = (value, [i0, i1, j0, j1]): only faces between two cells of the loaded rectangle are filled - LADiM decides
            # the faces on the rim of the rectangle from the inside cell alone, and what it reads there lies outside the valid region
            val, (a0, a1, b0, b1) = landfill
            m = np.asarray(mask) > 0
            inside = np.zeros_like(m)
            inside[b0:b1, a0:a1] = True
            fu = ~(m[:, :-1] & m[:, 1:]) & inside[:, :-1] & inside[:, 1:]
            fv = ~(m[:-1, :] & m[1:, :]) & inside[:-1, :] & inside[1:, :]
            U = np.where(fu[None, None], val, U)
            V = np.where(fv[None, None], val, V)
        if pack:
            # pack = scale | (scale_u, scale_v) | (scale_u, scale_v, mode): mode "both" writes scale_factor and add_offset = 0,
            # "sf_only" writes no add_offset attribute at all (CF: it defaults to 0), "offset" packs around a non-zero offset
            pu, pv = (pack[0], pack[1]) if isinstance(pack, (tuple, list)) else (pack, pack)
            mode = pack[2] if isinstance(pack, (tuple, list)) and len(pack) > 2 else "both"
            ou, ov = (0.375, -0.1875) if mode == "offset" else (0.0, 0.0)
            au = dict(scale_factor=np.float32(pu)) if mode == "sf_only" else dict(scale_factor=np.float32(pu), add_offset=np.float32(ou))
            av = dict(scale_factor=np.float32(pv)) if mode == "sf_only" else dict(scale_factor=np.float32(pv), add_offset=np.float32(ov))
            mk("u", ("ocean_time", "s_rho", "eta_u", "xi_u"), np.round((U - ou) / pu).astype("i2"), "i2", **au)
            mk("v", ("ocean_time", "s_rho", "eta_v", "xi_v"), np.round((V - ov) / pv).astype("i2"), "i2", **av)
        else:
            mk("u", ("ocean_time", "s_rho", "eta_u", "xi_u"), U, "f4")
            mk("v", ("ocean_time", "s_rho", "eta_v", "xi_v"), V, "f4")
        if S is not None:
            if spack:
                sc, off = spack
                mk("temp", ("ocean_time", "s_rho", "eta_rho", "xi_rho"), np.round((S - off) / sc).astype("i2"), "i2",
                   scale_factor=np.float32(sc), add_offset=np.float32(off))
            else:
                mk("temp", ("ocean_time", "s_rho", "eta_rho", "xi_rho"), S, "f4")
        if W is not None:
            mk("w", ("ocean_time", "s_w", "eta_rho", "xi_rho"), W, "f4")


def formula_fields(fm, frames, N, jmax, imax, scalar=True):
    """Node arrays (m/s) for the frame numbers `frames` from the node formula."""
    nt = len(frames)
    U = np.zeros((nt, N, jmax, imax - 1))
    V = np.zeros((nt, N, jmax - 1, imax))
    S = np.zeros((nt, N, jmax, imax)) if scalar else None
    for n, f in enumerate(frames):
        for k in range(N):
            ju, iu = np.meshgrid(np.arange(jmax), np.arange(imax - 1), indexing="ij")
            U[n, k] = node(fm, f, k, ju, iu, 0) / UNIT
            jv, iv = np.meshgrid(np.arange(jmax - 1), np.arange(imax), indexing="ij")
            V[n, k] = node(fm, f, k, jv, iv, 1) / UNIT
            if scalar:
                js, is_ = np.meshgrid(np.arange(jmax), np.arange(imax), indexing="ij")
                S[n, k] = scal(f, k, js, is_)
    return U, V, S


def partition(n, cuts):
    """[0..n) cut at `cuts` -> list of (a, b) index ranges."""
    edges = [0] + sorted(cuts) + [n]
    return [(a, b) for a, b in zip(edges[:-1], edges[1:]) if b > a]


__all__ = ["make_roms", "formula_fields", "node", "scal", "partition", "T0", "iso", "UNIT"]
