"""Thin runner around TLC: exhaustive model checking, simulation and batched trace validation.

TLC is the only oracle of this framework: the harness generates inputs, runs the real code, encodes
observations as integers and reports TLC's verdicts.
"""
from __future__ import annotations

import json
import os
import re
import shutil
import subprocess
import tempfile
import time
from concurrent.futures import ThreadPoolExecutor
from dataclasses import dataclass, field

SPEC_DIR = os.path.join(os.path.dirname(os.path.dirname(os.path.abspath(__file__))), "spec")
CP = "/opt/veriftools/tla/tla2tools.jar:/opt/veriftools/tla/CommunityModules-deps.jar"


class MachineryError(RuntimeError):
    """TLC crashed / output unparsable: never reported as a violation (exit code 2)."""


@dataclass
class TlcResult:
    rc: int
    out: str
    wall: float
    generated: int = 0
    distinct: int = 0
    diameter: int = 0
    violated: list = field(default_factory=list)   # names of violated invariants / properties
    coverage: dict = field(default_factory=dict)   # action name -> (taken, distinct)
    error: str = ""


def scratch(prefix="lv_"):
    return tempfile.mkdtemp(prefix=prefix, dir=os.environ.get("TMPDIR") or "/tmp")


def _java(xmx, deque, tmpdir=None):
    cmd = ["java", "-XX:+UseParallelGC", f"-Xmx{xmx}"]
    if tmpdir:      # TLC leaves an empty tlc-<n> directory in the JVM's temporary directory at every start: keep it inside our scratch
        cmd.append(f"-Djava.io.tmpdir={tmpdir}")
    if deque:
        cmd.append("-Dtlc2.tool.queue.IStateQueue=StateDeque")
    return cmd + ["-cp", CP, "tlc2.TLC"]


_RE_STATES = re.compile(r"(\d+) states generated, (\d+) distinct states found")
_RE_DIAM = re.compile(r"The depth of the complete state graph search is (\d+)")
_RE_INV = re.compile(r"Invariant (\S+) is violated")
_RE_PROP = re.compile(r"(?:Action property|Temporal properties|property) (\S+)? ?(?:is|were) violated")
_RE_COV = re.compile(r"^<(\w+) line \d+, col \d+ to line \d+, col \d+ of module (\w+)>: (\d+):(\d+)", re.M)


def run_tlc(module, cfg=None, *, workers=16, timeout=1800, xmx="4g", env=None, extra=(), deque=False,
            coverage=False, spec_dir=SPEC_DIR, simulate=None, depth=None):
    """Run TLC on spec/<module>.tla with spec/<cfg> (default <module>.cfg)."""
    meta = scratch("lv_tlc_")
    cfg = cfg or module + ".cfg"
    cmd = _java(xmx, deque, meta) + ["-workers", str(workers), "-metadir", meta, "-noGenerateSpecTE",
                               "-config", cfg]
    if coverage:
        cmd += ["-coverage", "1"]
    if simulate is not None:
        cmd += ["-simulate", simulate]
    if depth is not None:
        cmd += ["-depth", str(depth)]
    cmd += list(extra) + [module + ".tla"]
    e = dict(os.environ)
    e.pop("JAVA_TOOL_OPTIONS", None)
    if env:
        e.update(env)
    t0 = time.time()
    try:
        p = subprocess.run(cmd, cwd=spec_dir, env=e, capture_output=True, text=True, timeout=timeout)
        out, rc = p.stdout + p.stderr, p.returncode
    except subprocess.TimeoutExpired as ex:
        out = (ex.stdout.decode() if isinstance(ex.stdout, bytes) else (ex.stdout or "")) + "\nTIMEOUT"
        rc = -9
    finally:
        shutil.rmtree(meta, ignore_errors=True)
    r = TlcResult(rc=rc, out=out, wall=time.time() - t0)
    m = _RE_STATES.findall(out)
    if m:
        r.generated, r.distinct = int(m[-1][0]), int(m[-1][1])
    m = _RE_DIAM.search(out)
    if m:
        r.diameter = int(m.group(1))
    r.violated = _RE_INV.findall(out) + [x for x in _RE_PROP.findall(out) if x]
    if "is violated" in out and not r.violated:
        r.violated = ["<unnamed>"]
    for name, mod, taken, dist in _RE_COV.findall(out):
        old = r.coverage.get(name, (0, 0))
        r.coverage[name] = (old[0] + int(taken), old[1] + int(dist))
    if rc not in (0, 12, 13) or "TIMEOUT" in out[-20:]:
        # 12 = safety violation, 13 = liveness violation ; everything else is a tool problem
        lines = [ln for ln in out.splitlines() if ln.startswith("Error") or "rror:" in ln or "TIMEOUT" in ln]
        r.error = "; ".join(lines[:4]) or f"rc={rc}"
    return r


def model_check(module, cfg=None, must_take=(), **kw):
    """Exhaustive run that must finish without violation; returns TlcResult.

    `must_take`: action names that must have been taken at least once (vacuity control)."""
    r = run_tlc(module, cfg, coverage=bool(must_take), **kw)
    if r.error and not r.violated:
        raise MachineryError(f"TLC failed on {module}/{cfg}: {r.error}\n{r.out[-1500:]}")
    if not r.violated:
        for a in must_take:
            if r.coverage.get(a, (0, 0))[0] == 0:
                raise MachineryError(f"vacuous model check: action {a} of {module} never taken")
    return r


def expect_refuted(module, cfg, invariant, **kw):
    """Control run: TLC must REFUTE `invariant` for this configuration (e.g. the pinned design alternative).
    Shows the invariant is not vacuous; a run that does not violate it is a machinery failure."""
    r = run_tlc(module, cfg, **kw)
    if invariant not in r.violated:
        raise MachineryError(f"control model {module}/{cfg} was expected to violate {invariant}, got {r.violated or r.error or 'no violation'}")
    r.violated = []
    return r


_PROOF_CACHE = {}


def prove(theorems=None, timeout=900, strict=False):
    """Run the TLA+ proof system on spec/proofs/Proofs.tla; returns dict(obligations, discharged, wall).
    The operator definitions copied into Proofs.tla must be textually identical to those of the specification modules.

    The back-end provers work under wall-clock limits, so on a loaded machine an obligation can time out although it is provable:
    the run is repeated with stretched limits (--stretch 4, 12, 40).  The proofs supplement the checks and never decide a property:
    if they still cannot be discharged a check records that (discharged < obligations, NOTE line) and goes on; `run.py setup`
    (strict=True) fails instead, so a proof broken by an edit of the specification cannot go unnoticed."""
    if "ok" in _PROOF_CACHE and not strict:
        return _PROOF_CACHE["ok"]
    pdir = os.path.join(SPEC_DIR, "proofs")
    src = open(os.path.join(pdir, "Proofs.tla")).read()
    norm = lambda t: re.sub(r"\s+", " ", t).strip()
    for mod, names in (("Tracker", ["Reflect"]), ("Tableau", ["Fam2B1", "Fam2B2"]), ("OutFile", ["CeilDiv"]), ("Frames", ["LerpVal"])):
        msrc = norm(open(os.path.join(SPEC_DIR, mod + ".tla")).read())
        for nm in names:
            m = re.search(r"^" + nm + r"\(.*?(?=^\S)", src, re.M | re.S)
            if not m or norm(m.group(0)) not in msrc:
                raise MachineryError(f"Proofs.tla: definition of {nm} differs from {mod}.tla")
    names = re.findall(r"^THEOREM (\w+)", src, re.M)
    t0 = time.time()
    out, n, tries = "", 0, []
    for stretch in (4, 12, 40):
        work = scratch("lv_tlaps_")
        try:
            shutil.copy(os.path.join(pdir, "Proofs.tla"), work)
            p = subprocess.run(["tlapm", "--cleanfp", "--stretch", str(stretch), "Proofs.tla"], cwd=work, capture_output=True, text=True, timeout=timeout)
            out = p.stdout + p.stderr
        except subprocess.TimeoutExpired:
            out = "tlapm timed out"
        finally:
            shutil.rmtree(work, ignore_errors=True)
        m = re.search(r"All (\d+) obligations? proved", out)
        tries.append(stretch)
        if m:
            n = int(m.group(1))
            r = dict(checker="tlapm --cleanfp --stretch <f> spec/proofs/Proofs.tla", obligations=n, discharged=n, stretch_used=stretch,
                     wall_s=round(time.time() - t0, 2), theorems=names)
            _PROOF_CACHE["ok"] = r
            return r
    f = re.search(r"(\d+)/(\d+) obligations? failed", out)
    msg = "tlapm: " + (f.group(0) if f else out[-300:].replace("\n", " "))
    if strict:
        raise MachineryError(msg)
    return dict(checker="tlapm --cleanfp --stretch <f> spec/proofs/Proofs.tla", obligations=int(f.group(2)) if f else len(names),
                discharged=(int(f.group(2)) - int(f.group(1))) if f else 0, not_discharged=msg, stretch_tried=tries,
                wall_s=round(time.time() - t0, 2), theorems=names)


# ------------------------------------------------------------------------------------------------
# batched trace validation
# ------------------------------------------------------------------------------------------------

_RE_VERDICT = re.compile(r'<<"(ACCEPT|REJECT|COUNT)", (.*)>>$')


def _parse_tuple_tail(s):
    """'12, 7, "clause.name"' -> [12, 7, 'clause.name'] (ints and quoted strings only)."""
    out = []
    for tok in re.findall(r'"[^"]*"|-?\d+|TRUE|FALSE', s):
        if tok.startswith('"'):
            out.append(tok[1:-1])
        elif tok in ("TRUE", "FALSE"):
            out.append(tok == "TRUE")
        else:
            out.append(int(tok))
    return out


@dataclass
class Verdicts:
    accepted: set
    rejects: dict          # tid -> list of (event index within batch, clause)
    counts: dict           # counter name -> int (vacuity counters printed by the trace spec)
    events: int
    states: int
    wall: float


def _validate_one(module, cfg, path, nevents, timeout, xmx, deque):
    r = run_tlc(module, cfg, workers=1, timeout=timeout, xmx=xmx, env={"TRACE_FILE": path}, deque=deque)
    acc, rej, cnt = set(), {}, {}
    for ln in r.out.splitlines():
        m = _RE_VERDICT.search(ln.strip())
        if not m:
            continue
        vals = _parse_tuple_tail(m.group(2))
        if m.group(1) == "ACCEPT":
            acc.add(vals[0])
        elif m.group(1) == "REJECT":
            rej.setdefault(vals[0], []).append((vals[1], vals[2]))
        else:
            cnt[vals[0]] = cnt.get(vals[0], 0) + vals[1]
    ok = r.rc == 0 and not r.error and "Model checking completed. No error has been found" in r.out
    return r, acc, rej, cnt, ok


def validate_traces(module, traces, *, cfg=None, batch_events=4000, parallel=12, timeout=900, xmx="1g",
                    deque=False, keep_dir=None):
    """Validate traces (each a list of event dicts; the first must be the `setup` event) against
    spec/<module>.tla.  Every trace receives a verdict; a trace on which TLC *crashes* is isolated by
    re-running its batch one trace at a time and is reported with clause 'tlc.evaluation-error'.

    Returns Verdicts with tids = index into `traces` + 1."""
    work = keep_dir or scratch("lv_tv_")
    t0 = time.time()
    try:
        batches, cur, n = [], [], 0
        for i, tr in enumerate(traces):
            tid = i + 1
            assert tr and tr[0].get("ev") == "setup", "trace must start with setup"
            tr[0]["tid"] = tid
            if cur and n + len(tr) > batch_events:
                batches.append(cur)
                cur, n = [], 0
            cur.append((tid, tr))
            n += len(tr)
        if cur:
            batches.append(cur)

        def clean(x):
            """TLC's Json module has no null / float: map None -> "none", integral floats -> int (others are a driver bug)."""
            if x is None:
                return "none"
            if isinstance(x, bool) or isinstance(x, (int, str)):
                return x
            if isinstance(x, float):
                if x == int(x) and abs(x) < 2**31:
                    return int(x)
                raise MachineryError(f"float in trace event: {x!r}")
            if isinstance(x, dict):
                return {str(k): clean(v) for k, v in x.items()}
            if isinstance(x, (list, tuple)):
                return [clean(v) for v in x]
            if hasattr(x, "item"):
                return clean(x.item())
            raise MachineryError(f"unsupported value in trace event: {type(x)}")

        def write(bi, items):
            path = os.path.join(work, f"b{bi}.ndjson")
            k = 0
            with open(path, "w") as f:
                for _tid, tr in items:
                    for e in tr:
                        f.write(json.dumps(clean(e), separators=(",", ":")) + "\n")
                        k += 1
                f.write('{"ev":"eof"}\n')
            return path, k + 1

        def job(arg):
            bi, items = arg
            path, k = write(bi, items)
            r, acc, rej, cnt, ok = _validate_one(module, cfg, path, k, timeout, xmx, deque)
            tids = {t for t, _ in items}
            if ok and (acc | set(rej)) == tids:
                return acc, rej, cnt, k, r.distinct
            if "Parsing or semantic analysis failed" in r.out or "Parsing or semantic analysis failed" in (r.error or ""):
                raise MachineryError(f"specification {module} does not parse: {(r.error or r.out[-300:])[:300]}")     # never a verdict on the code
            if len(items) == 1:
                tid = items[0][0]
                if "TIMEOUT" in r.out[-20:]:
                    raise MachineryError(f"TLC timeout validating a single trace with {module}")
                detail = (r.error or r.out[-300:]).replace("\n", " ")[:300]
                return set(), {tid: [(0, "tlc.evaluation-error: " + detail)]}, {}, k, r.distinct
            # isolate: re-run one by one
            A, R, C, K, D = set(), {}, {}, 0, 0
            for j, it in enumerate(items):
                a, rj, c, kk, d = job((f"{bi}_{j}", [it]))
                A |= a
                R.update(rj)
                for x, y in c.items():
                    C[x] = C.get(x, 0) + y
                K += kk
                D += d
            return A, R, C, K, D

        acc, rej, cnt, nev, nst = set(), {}, {}, 0, 0
        with ThreadPoolExecutor(max_workers=max(1, parallel)) as ex:
            for a, rj, c, k, d in ex.map(job, list(enumerate(batches))):
                acc |= a
                rej.update(rj)
                for x, y in c.items():
                    cnt[x] = cnt.get(x, 0) + y
                nev += k
                nst += d
        for t in list(acc):
            if t in rej:
                acc.discard(t)
        missing = set(range(1, len(traces) + 1)) - acc - set(rej)
        if missing:
            raise MachineryError(f"{module}: no verdict for traces {sorted(missing)[:10]}")
        return Verdicts(acc, rej, cnt, nev, nst, time.time() - t0)
    finally:
        if not keep_dir:
            shutil.rmtree(work, ignore_errors=True)
