"""End-to-end driver: generated lattice-world scenario -> files -> ladim.main.main() with all eight modules replaced
by recording plug-ins (given by file path) -> LadimTrace events (+ decoded output files)."""
from __future__ import annotations

import glob
import os
import re
import shutil

from . import tlc
from .enc import iso
from .forcedrv import write_files
from .world import partition  # noqa: F401

HERE = os.path.dirname(os.path.abspath(__file__))
PLUG = os.path.join(HERE, "plugins", "rec_%s.py")
Q = 1 << 16
NEG = -(2 ** 30)


# ------------------------------------------------------------------------------------------------
# scenario generation (inputs only)
# ------------------------------------------------------------------------------------------------

def sim2t(sc, s):
    return sc["start"] - s * sc["dt"] if sc["rev"] else sc["start"] + s * sc["dt"]


def base_scenario(rng, **o):
    """A random small end-to-end scenario; keyword options pin individual features."""
    dt = o.get("dt", rng.choice([32, 64]))
    dx = o.get("dx", 128.0)
    dy = o.get("dy", dx)
    shape = o.get("shape") or rng.choice([(10, 9), (10, 9), (8, 13), (13, 8)])
    imax, jmax, N = o.get("imax", shape[0]), o.get("jmax", shape[1]), o.get("N", rng.choice([2, 2, 2, 3, 4, 1]))
    M = [[1] * imax for _ in range(jmax)]
    for _ in range(o.get("nland", rng.randrange(0, 7))):
        M[rng.randrange(1, jmax - 1)][rng.randrange(1, imax - 1)] = 0
    H = [[o.get("h", 40)] * imax for _ in range(jmax)]
    rev = o.get("rev", rng.random() < 0.4)
    nsteps = o.get("nsteps", rng.randrange(1, 9))
    # forcing frames: cover [0, nsteps] in simulation steps, irregular gaps, optional pre/post frames
    pre = rng.choice([0, 0, 1, 2])
    fsim = [-pre]
    while fsim[-1] < nsteps + 1:
        fsim.append(fsim[-1] + rng.choice([1, 2, 2, 3, 4]))
    if rng.random() < 0.3:
        fsim.append(fsim[-1] + 2)
    base_t = o.get("base_t", rng.choice([3600, 86400 * 20 + 7200]))
    tlen = (fsim[-1] + 2) * dt
    start = base_t + (tlen if rev else 0)
    sc = dict(dt=dt, dx=dx, dy=dy, imax=imax, jmax=jmax, N=N, M=M, H=H, rev=rev, start=start)
    if o.get("varmetric", rng.random() < 0.15):          # grid spacing changes from cell to cell (pm, pn not uniform)
        ci, cj = rng.randrange(3, imax - 3), rng.randrange(3, jmax - 3)
        sc["dxarr"] = [[128 if (i < ci) == (j % 2 == 0 or True) else 256 for i in range(imax)] for j in range(jmax)]
        sc["dyarr"] = [[128 if j < cj else 256 for i in range(imax)] for j in range(jmax)]
    sc["stop"] = sim2t(sc, nsteps) + (0 if o.get("exact_stop", rng.random() < 0.8) else (-1 if rev else 1) * rng.randrange(1, dt))
    ftimes_sim = fsim if not rev else fsim[::-1]
    sc["ftimes"] = [sim2t(sc, s) for s in ftimes_sim]          # ascending real time
    nfr = len(fsim)
    ncut = min(o.get("ncut", rng.randrange(0, min(3, nfr - 1) + 1)), nfr - 1)      # (a requested split cannot exceed the number of frames)
    sc["cuts"] = sorted(rng.sample(range(1, nfr), ncut)) if ncut else []
    sc["fm"] = o.get("fm", dict(a=rng.randrange(0, 6), b=rng.randrange(0, 6), c=rng.randrange(0, 30), d=rng.randrange(0, 20), e=rng.randrange(0, 3)))
    sc["pack"] = rng.random() < 0.2
    sc["hasscal"] = o.get("hasscal", rng.random() < 0.4)
    sub = o.get("subgrid")
    if sub is None and o.get("allow_subgrid", True) and rng.random() < 0.3:
        i0 = rng.randrange(1, 3); i1 = rng.randrange(max(i0 + 5, imax - 3), imax)
        j0 = rng.randrange(1, 3); j1 = rng.randrange(max(j0 + 5, jmax - 3), jmax)
        sub = [i0, i1, j0, j1]
    sc["subgrid"] = sub
    sc["adv"] = o.get("adv", rng.choice(["EF", "RK2", "RK4", "EF", "RK2", "RK4", "EF", "RK2", "RK4", ""]))     # "" = no advection scheme
    sc["hasref"] = rng.random() < 0.6
    sc["ref"] = rng.choice([0, base_t - 3600, base_t + 5 * dt])
    # release
    cont = o.get("cont", rng.random() < 0.4)
    fq = rng.choice([1, 2, 3]) if cont else 1
    si0, si1, sj0, sj1 = sub if sub else (1, imax - 1, 1, jmax - 1)
    sea = [(i, j) for j in range(sj0 + 1, sj1 - 2) for i in range(si0 + 1, si1 - 2) if M[j][i] > 0]
    if not sea:
        M[sj0 + 1][si0 + 1] = 1
        sea = [(si0 + 1, sj0 + 1)]
    ntimes = o.get("ntimes", rng.choice([1, 2, 3]))
    if cont:
        first = rng.randrange(-2, max(1, nsteps))
        sims = sorted({first + fq * k for k in rng.sample(range(0, 6), ntimes)} | {first})
    else:
        sims = sorted(rng.sample(range(-1, nsteps + 1), min(ntimes, nsteps + 2)))
        if all(s < 0 or s >= nsteps for s in sims):
            sims = sorted(set(sims) | {rng.randrange(0, nsteps)})
    rows, rid = [], 0
    for s in sims:
        for _ in range(rng.choice([1, 1, 2])):
            i, j = sea[rng.randrange(len(sea))]
            rid += 1
            rows.append(dict(t=sim2t(sc, s), mult=rng.choice([0, 1, 1, 2]), id=rid,
                             xf=i + rng.randrange(-3, 4) / 8.0, yf=j + rng.randrange(-3, 4) / 8.0, zf=float(rng.choice([5, 10, 20, 30]))))
    sc.update(cont=cont, freq=fq * dt, rows=rows)
    npart = sum(r["mult"] for r in rows) * (4 if cont else 1)
    # scripted IBM kills
    nk = o.get("nkill", rng.randrange(0, 4))
    sc["kill"] = sorted([rng.randrange(0, nsteps), rng.randrange(0, max(1, min(npart, 8)))] for _ in range(nk))
    sc["freeze"] = sorted([rng.randrange(0, nsteps), rng.randrange(0, max(1, min(npart, 8)))] for _ in range(o.get("nfreeze", rng.choice([0, 0, 1]))))
    # output
    sc["ops"] = o.get("ops", rng.randrange(1, 4))
    sc["numrec"] = o.get("numrec", rng.choice([0, 0, 1, 2, 3]))
    sc["layout"] = o.get("layout", "sparse" if rng.random() < 0.75 else "dense")
    sc["pvars"] = o.get("pvars", rng.random() < 0.6)
    sc["token"] = rng.randrange(1, 10**6)
    sc["cls"] = dict(rev=rev, cont=cont, adv=sc["adv"], layout=sc["layout"], split=sc["numrec"] > 0, pvars=sc["pvars"],
                     ops_divides=(nsteps % sc["ops"] == 0), multifile=len(sc["cuts"]) > 0, nsteps=nsteps, ops=sc["ops"], numrec=sc["numrec"])
    return sc


def uniform_fm(rng, strong=True):
    """node formula parameters for a flow that is uniform in space (per level), constant or slowly varying in time,
    with a strong (or weak) component in a random direction - drives particles onto land / out of the grid"""
    from .world import node
    while True:
        fm = dict(a=0, b=0, c=rng.randrange(0, 97), d=rng.choice([0, 0, 1, 2]), e=0)
        u, v = node(fm, 0, 0, 0, 0, 0), node(fm, 0, 0, 0, 0, 1)
        big = max(abs(u), abs(v))
        if big >= 700 or not strong:          # (level 0 of frame 0 always flows at 1152 / 744 units: every draw is "strong")
            return fm


def directed(rng, kind, **o):
    """Directed scenario families for the rare branches (DESIGN 10: branch coverage of the oracle)."""
    if kind == "coast":      # strong uniform flow, much land, releases everywhere: land-cancel and boundary kills
        return base_scenario(rng, fm=uniform_fm(rng), nland=rng.randrange(6, 14), nsteps=rng.randrange(4, 9), ntimes=2,
                             nkill=rng.choice([0, 1]), dt=64, **o)
    if kind == "boundary":   # fast uniform flow (up to ~0.85 cell per step) from releases next to the open boundaries: RK stage clipping
        sc = base_scenario(rng, fm=uniform_fm(rng), nland=rng.choice([0, 0, 2]), nsteps=rng.randrange(2, 6), ntimes=1, nkill=0, dt=96,
                           adv=rng.choice(["RK2", "RK4", "RK4"]), cont=False, **o)
        sub = sc["subgrid"] or [1, sc["imax"] - 1, 1, sc["jmax"] - 1]
        i0, i1, j0, j1 = sub
        rows = []
        for k, (i, j) in enumerate([(i0 + 1, j0 + 2), (i1 - 3, j1 - 3), (i0 + 1, j1 - 3), (i1 - 3, j0 + 1), ((i0 + i1) // 2, j1 - 3), (i1 - 3, (j0 + j1) // 2)]):
            if sc["M"][j][i] > 0:
                rows.append(dict(t=sc["start"], mult=1, id=k + 1, xf=i + rng.randrange(-3, 4) / 8.0, yf=j + rng.randrange(-3, 4) / 8.0, zf=float(rng.choice([0, 10, 39]))))
        if rows:
            sc["rows"] = rows
        return sc
    if kind == "shear":      # sheared, time-dependent flow, little land: Runge-Kutta stages differ
        return base_scenario(rng, fm=dict(a=rng.randrange(1, 9), b=rng.randrange(1, 9), c=rng.randrange(0, 30), d=rng.randrange(1, 20), e=rng.randrange(0, 3)),
                             nland=rng.choice([0, 0, 1]), nsteps=rng.randrange(2, 7), adv=rng.choice(["RK2", "RK4", "RK4", "EF"]),
                             dx=rng.choice([128.0, 256.0]), dy=rng.choice([128.0, 256.0]), varmetric=rng.random() < 0.4, **o)
    if kind == "deaths":     # many scripted kills and freezes, dense and sparse, particle variables
        return base_scenario(rng, nkill=rng.randrange(2, 6), nfreeze=rng.choice([0, 1, 2]), nsteps=rng.randrange(3, 9), ntimes=rng.choice([2, 3]), pvars=True, **o)
    if kind == "scale":      # many particles, many steps, many files: block sizes, counter widths, integer widths
        nsteps = rng.randrange(24, 41)
        sc = base_scenario(rng, nsteps=nsteps, ntimes=3, nkill=3, nfreeze=0, ops=rng.choice([2, 3]), numrec=rng.choice([1, 2]), pvars=True, cont=False,
                           dt=32, nland=rng.choice([0, 2]), **o)
        for r in sc["rows"]:
            r["mult"] = rng.choice([90, 130, 260])
        npart = sum(r["mult"] for r in sc["rows"])
        sc["kill"] = sorted([rng.randrange(0, nsteps), rng.randrange(0, npart)] for _ in range(12))
        sc["cls"] = dict(sc["cls"], scale=True)
        return sc
    raise ValueError(kind)


# ------------------------------------------------------------------------------------------------
# materialise + run
# ------------------------------------------------------------------------------------------------

def _q(v):
    import numpy as np
    return int(np.rint(float(v) * Q))


def setup_event(sc):
    M = sc["M"]
    sub = sc["subgrid"] or [1, sc["imax"] - 1, 1, sc["jmax"] - 1]
    i0, i1, j0, j1 = sub
    return dict(ev="setup", adv=sc["adv"],
                clock=dict(start=sc["start"], stop=sc["stop"], dt=sc["dt"], rev=sc["rev"], ref=sc["ref"], hasref=sc["hasref"]),
                cfg=dict(start=sc["start"], stop=sc["stop"], dt=sc["dt"], rev=sc["rev"], cont=sc["cont"], freq=sc["freq"]),
                table=[dict(t=r["t"], mult=r["mult"], id=r["id"], x=_q(r["xf"]), y=_q(r["yf"]), z=_q(r["zf"])) for r in sc["rows"]],
                grid=dict(i0=i0, i1=i1, j0=j0, j1=j1, dt=sc["dt"], dx=int(sc["dx"]), dy=int(sc["dy"]),
                          dxt=[[int(v) for v in row[i0:i1]] for row in (sc.get("dxarr") or [[sc["dx"]] * sc["imax"]] * sc["jmax"])[j0:j1]],
                          dyt=[[int(v) for v in row[i0:i1]] for row in (sc.get("dyarr") or [[sc["dy"]] * sc["imax"]] * sc["jmax"])[j0:j1]],
                          mask=[row[i0:i1] for row in M[j0:j1]]),
                kill=sc["kill"], freeze=sc.get("freeze", []), killfarm=sc.get("killfarm", []), out=dict(ops=sc["ops"], numrec=sc["numrec"], sparse=sc["layout"] == "sparse", pvars=sc["pvars"],
                         proto=list(os.path.splitext(sc.get("outname", "out.nc"))[0]), drop=list(sc.get("out_drop", [])), stamp=bool(sc.get("stampvar"))),
                scal=dict(has=bool(sc["hasscal"]), N=int(sc["N"]),
                          frames=[((t - sc["start"]) // sc["dt"]) * (-1 if sc["rev"] else 1) for t in sc["ftimes"]],
                          fnum=[int(f) for f in (sc.get("frame_numbers") or range(len(sc["ftimes"])))]),      # number the field formula was given
                warm=bool(sc.get("warm")), vert=bool(sc.get("vert") or sc.get("wfield")), token=sc.get("token", 0),
                **({"init": sc["warm"]["init"], "warmidx": sc["warm"]["idx"]} if sc.get("warm") else {}))


def stamp_of(r):
    """a time-typed per-row value carried as an INSTANCE variable (C06: 'all sets of instance and particle variables incl. time-typed ones')"""
    return r["t"] + 3600 * r["id"]


def lonlat_of(sc, x, y):
    """bilinear longitude / latitude of the grid position (x, y) in the scenario's coordinate tables"""
    from .forcedrv import geo_tables
    lon, lat = geo_tables(sc)
    i, j = int(x), int(y)
    p, q = x - i, y - j

    def b(T):
        return float((1 - p) * (1 - q) * T[j, i] + p * (1 - q) * T[j, i + 1] + (1 - p) * q * T[j + 1, i] + p * q * T[j + 1, i + 1])
    return b(lon), b(lat)


def write_release(sc, path):
    st = bool(sc.get("stampvar"))
    ll = bool(sc.get("llrelease"))          # positions given by longitude / latitude (needs sc["geo"])
    with open(path, "w") as f:
        f.write("mult release_time " + ("lon lat" if ll else "X Y") + " Z farm src" + (" stamp" if st else "") + "\n")
        for r in sc["rows"]:
            px, py = lonlat_of(sc, r["xf"], r["yf"]) if ll else (r["xf"], r["yf"])
            f.write(f"{r['mult']} {iso(r['t'])} {px!r} {py!r} {r['zf']!r} {r['id']} {r['id']}" + (f" {iso(stamp_of(r))}" if st else "") + "\n")


class _Plug:
    """how each recording plug-in is named in the configuration: absolute path with / without .py, path relative to the working
    directory, or the name of a module on the python search path (LADiM accepts all four; the path forms take precedence)"""
    def __init__(self, pattern, style):
        self.pattern, self.style = pattern, style or {}

    def __mod__(self, kind):
        path = self.pattern % kind
        st = self.style.get(kind, "abs.py")
        return {"abs.py": path, "abs": path[:-3], "rel": os.path.relpath(path)[:-3], "name": "rec_" + kind}[st]


def config(sc, work, plug=PLUG):
    plug = _Plug(plug, sc.get("plugstyle"))
    iv = dict(farm="int", age="int")
    dv = dict(age=0)
    if sc["hasscal"]:
        iv["temp"] = "float"
        dv["temp"] = 0.0
    out_iv = {v: dict(encoding=dict(datatype=t), attributes={}) for v, t in
              [("pid", "i4"), ("X", "f8"), ("Y", "f8"), ("Z", "f8"), ("age", "i4"), ("farm", "i4")]}
    if sc["hasscal"]:
        out_iv["temp"] = dict(encoding=dict(datatype="f8"), attributes={})
    if sc.get("out_active"):        # the activity flag saved with the records (needed to restart a run with resting particles)
        out_iv["active"] = dict(encoding=dict(datatype="i1"), attributes={})
    if sc.get("stampvar"):
        iv["stamp"] = "time"
        out_iv["stamp"] = dict(encoding=dict(datatype="f8"), attributes=dict(long_name="time stamp of the release row", units="seconds since reference_time", valid_min=0))
    for v in sc.get("out_drop", []):          # state variables that are NOT written (the output holds exactly the configured ones)
        out_iv.pop(v)
    conf = dict(
        version=2,
        # a warm start takes its start time from the restart file: the configured start may be left as it was ("unchanged settings")
        time=dict(module=plug % "time", start=iso((sc.get("warm") or {}).get("config_start", sc["start"])), stop=iso(sc["stop"]), dt=sc["dt"]),
        state=dict(module=plug % "state", instance_variables=iv, particle_variables=dict(release_time="time", src="int"), default_values=dv),
        grid=dict(module=plug % "grid", filename=os.path.join(work, "f_00.nc")),
        forcing=dict(module=plug % "forcing", filename=os.path.join(work, "f_*.nc")),
        tracker=dict(module=plug % "tracker", advection=sc["adv"]),
        release=dict(module=plug % "release", release_file=os.path.join(work, "r.rls"), continuous=sc["cont"]),
        ibm=dict(module=plug % "ibm", kill={int(s): [p for s2, p in sc["kill"] if s2 == s] for s, _ in sc["kill"]},
                 freeze={int(s): [p for s2, p in sc.get("freeze", []) if s2 == s] for s, _ in sc.get("freeze", [])},
                 killfarm={int(s): [p for s2, p in sc.get("killfarm", []) if s2 == s] for s, _ in sc.get("killfarm", [])},
                 compact=sc.get("ibm_compact", [])),
        output=dict(module=plug % "output", filename=os.path.join(work, sc.get("outname", "out.nc")), output_period=sc["dt"] * sc["ops"],
                    numrec=sc["numrec"], layout=sc["layout"], instance_variables=out_iv),
    )
    if sc["rev"]:
        conf["time"]["time_reversal"] = True
    if sc["hasref"]:
        conf["time"]["reference"] = iso(sc["ref"])
    if sc["cont"]:
        conf["release"]["release_frequency"] = sc["freq"]
    elif sc.get("token", 0) % 3 == 0:      # a discrete release that still names a frequency: the flag decides, not the number
        conf["release"]["release_frequency"] = sc["dt"] * 2
    if sc["subgrid"]:
        conf["grid"]["subgrid"] = list(sc["subgrid"])
    if sc["hasscal"]:
        conf["forcing"]["extra_forcing"] = ["temp"]
    if sc.get("lonlat_out"):       # longitude / latitude written with every record (C16)
        for v in ("lon", "lat"):
            conf["state"]["instance_variables"][v] = "float"
            conf["state"]["default_values"][v] = 0.0
            conf["output"]["instance_variables"][v] = dict(encoding=dict(datatype="f8"), attributes={})
    if sc.get("wfield"):
        conf["forcing"]["extra_forcing"] = conf["forcing"].get("extra_forcing", []) + ["w"]
        conf["state"]["instance_variables"]["w"] = "float"
        conf["state"]["default_values"]["w"] = 0.0
        conf["tracker"]["vertical_advection"] = True
    if sc["pvars"]:
        conf["output"]["particle_variables"] = dict(
            release_time=dict(encoding=dict(datatype="f8"), attributes=dict(long_name="particle release time", units="seconds since reference_time")),
            src=dict(encoding=dict(datatype="i4"), attributes=dict(long_name="release row")))
    for k, v in (sc.get("tracker_opts") or {}).items():
        conf["tracker"][k] = v
    if sc.get("warm"):
        # a restart file written without particle variables can only restore the instance variables (the release file's columns
        # stay declared as state variables: undeclared columns are an error)
        pv = ["release_time", "src"] if sc["pvars"] else []
        conf["warm_start"] = dict(filename=sc["warm"]["file"], variables=["age", "farm"] + pv + (["temp"] if sc["hasscal"] else []) + (["active"] if sc.get("out_active") else []) + (["stamp"] if sc.get("stampvar") else []))
    return conf


def _abs_time(var, values):
    """CF time values -> absolute integer seconds on the harness epoch (unit-free re-encoding)."""
    import numpy as np
    from .enc import secs_of
    units = getattr(var, "units", "")
    m = re.match(r"\s*(\w+)\s+since\s+(.+)$", units)
    if not m:
        return [NEG for _ in values], NEG
    mult = {"seconds": 1, "minutes": 60, "hours": 3600, "days": 86400}.get(m.group(1))
    ref = secs_of(m.group(2).strip().replace(" ", "T"))
    if mult is None or ref is None:
        return [NEG for _ in values], NEG
    out = []
    for v in np.ma.filled(np.ma.masked_invalid(np.ma.asarray(values, dtype=float)), np.nan):
        out.append(int(round(ref + v * mult)) if np.isfinite(v) and abs(v) < 1e12 else NEG)
    return out, ref


def output_files(work, sc, pattern=None):
    """the output files of a run, whatever they are called: every *.nc of the work directory that is not an input"""
    if pattern:
        names = glob.glob(os.path.join(work, pattern))
    else:
        inputs = set((sc.get("extra_files") or {}).keys())
        names = [fn for fn in glob.glob(os.path.join(work, "*.nc")) if not os.path.basename(fn).startswith("f_") and os.path.basename(fn) not in inputs]

    def key(fn):
        m = re.search(r"_(\d+)\.nc$", fn)
        return (int(m.group(1)) if m else -1, fn)
    return sorted(names, key=key)


def decode_files(work, sc, pattern=None):
    import numpy as np
    from netCDF4 import Dataset
    files = []
    ivars = ["age", "farm"] + (["temp"] if sc["hasscal"] else []) + (["lon", "lat"] if sc.get("lonlat_out") else []) + (["stamp"] if sc.get("stampvar") else [])
    for fn in output_files(work, sc, pattern):
        m = re.search(r"_(\d+)\.nc$", fn)
        with Dataset(fn) as d:
            tv, ref = _abs_time(d.variables["time"], d.variables["time"][:])
            recs = []
            ghost = 0          # dense layout: cells of any instance variable holding a value where the particle is not alive (X is fill)
            if "particle_count" in d.variables:
                cnt = [int(c) for c in np.ma.filled(d.variables["particle_count"][:], -1)]
                arr = {v: np.ma.filled(d.variables[v][:].astype(float), np.nan) for v in ["pid", "X", "Y", "Z"] + ivars if v in d.variables}
                st = 0
                for n, c in enumerate(cnt):
                    sl = slice(st, st + max(c, 0))
                    recs.append(_rec(tv[n], arr, sl, ivars))
                    st += max(c, 0)
                ninst, sumc = int(len(d.dimensions["particle_instance"])), int(sum(cnt))
            else:  # dense
                for n in range(len(tv)):
                    # row by row: reading a whole variable whose own extent is shorter than the shared unlimited
                    # dimension returns uninitialised memory for the missing rows in this netCDF4 build
                    row = np.ma.masked_invalid(np.ma.asarray(d.variables["X"][n]))
                    idx = np.nonzero(~np.ma.getmaskarray(row))[0]
                    arr = {"pid": idx.astype(float)}
                    for v in ["X", "Y", "Z"] + ivars:
                        if v in d.variables:
                            full = np.ma.filled(np.ma.asarray(d.variables[v][n]).astype(float), np.nan)
                            arr[v] = full[idx]
                            ghost += int(np.isfinite(np.delete(full, idx)).sum())
                    recs.append(_rec(tv[n], arr, slice(0, len(idx)), ivars))
                ninst = sumc = sum(len(r["pid"]) for r in recs)
            for r_ in recs:          # a time-typed instance variable is stored like the time coordinate: seconds since the reference time
                if r_.get("stamp"):
                    r_["stamp"] = [v + ref if v != NEG else NEG for v in r_["stamp"]]
            pv = {}
            if "release_time" in d.variables and "particle" in d.variables["release_time"].dimensions:
                pv["release_time"], _ = _abs_time(d.variables["release_time"], d.variables["release_time"][:])
            if "src" in d.variables:
                pv["src"] = [int(x) for x in np.ma.filled(d.variables["src"][:], NEG)]
            def units_ref(vn):        # reference time (seconds on the harness epoch) named by "seconds since <time>", NEG if absent or unreadable
                from .enc import secs_of
                mm = re.match(r"\s*seconds\s+since\s+(.+)$", getattr(d.variables[vn], "units", "")) if vn in d.variables else None
                try:
                    return int(secs_of(mm.group(1).strip())) if mm else NEG
                except Exception:
                    return NEG
            att = dict(rt_ref=units_ref("release_time"), stamp_ref=units_ref("stamp"),
                       rt_long=("release_time" in d.variables and getattr(d.variables["release_time"], "long_name", "") == "particle release time"),
                       src_long=("src" in d.variables and getattr(d.variables["src"], "long_name", "") == "release row"),
                       stamp_min=("stamp" in d.variables and int(getattr(d.variables["stamp"], "valid_min", -1)) == 0))
            files.append(dict(idx=int(m.group(1)) if m else -1, name=list(os.path.basename(fn)), recs=recs, ninst=ninst, sumcount=sumc, ref=ref, ghost=ghost, att=att,
                              pv_release_time=pv.get("release_time", []), pv_src=pv.get("src", []),
                              npart=int(len(d.dimensions["particle"])) if "particle" in d.dimensions else 0))
    return files


def _rec(t, arr, sl, ivars):
    import numpy as np

    def qq(a):
        a = np.asarray(a, float) * Q
        return [int(v) if np.isfinite(v) and abs(v) < 2**30 else NEG for v in np.rint(np.where(np.isfinite(a), a, 0)) + np.where(np.isfinite(a), 0, NEG)]

    def ii(a):
        return [int(round(v)) if np.isfinite(v) else NEG for v in np.asarray(a, float)]
    r = dict(time=t, pid=ii(arr["pid"][sl]), x=qq(arr["X"][sl]), y=qq(arr["Y"][sl]), z=qq(arr["Z"][sl]) if "Z" in arr else [])
    for v in ivars:
        if v in ("lon", "lat"):       # degrees relative to (5, 60), quantum 2^-20
            a = np.asarray(arr[v][sl], float) - (5.0 if v == "lon" else 60.0) if v in arr else np.array([])
            r[v] = [int(x) if np.isfinite(x) and abs(x) < 2**30 else NEG for x in np.rint(np.where(np.isfinite(a), a, 0) * 2**20) + np.where(np.isfinite(a), 0, NEG)]
        else:
            r[v] = ii(arr[v][sl]) if v in arr else []
    # bit-for-bit clauses: a digest of the raw float64 bytes of (X, Y, Z[, temp]) per particle instance
    import hashlib
    cols = [np.asarray(arr[v][sl], dtype="<f8") for v in ("X", "Y", "Z", "temp") if v in arr]
    r["hx"] = [hashlib.sha256(b"".join(c[k].tobytes() for c in cols)).hexdigest()[:12] for k in range(len(r["pid"]))]
    return r


def run_e2e(sc):
    """Run one scenario through ladim.main.main with recording plug-ins; returns the trace."""
    import logging

    import verif_rec as R
    import yaml
    from ladim.main import main
    work = tlc.scratch("lv_e2e_")
    ev = [setup_event(sc)]
    try:
        write_files(sc, work)
        write_release(sc, os.path.join(work, "r.rls"))
        for name, data in (sc.get("extra_files") or {}).items():   # e.g. warm start file copied from a previous run
            shutil.copy(data, os.path.join(work, name))
        if sc.get("warm"):
            sc = dict(sc, warm=dict(sc["warm"], file=os.path.join(work, sc["warm"]["name"])))
        conf = config(sc, work)
        # the IBM plug-in is a per-scenario file with the SAME base name as an importable module (harness/plugins/rec_ibm.py
        # is on sys.path): "user modules given by path are the ones that run" - the token proves which file ran
        token = sc.get("token", 0)
        with open(PLUG % "ibm") as f:
            src = f.read().replace("TOKEN = -1", f"TOKEN = {token}")
        with open(os.path.join(work, "rec_ibm.py"), "w") as f:
            f.write(src)
        conf["ibm"]["module"] = os.path.join(work, "rec_ibm" if sc.get("token", 0) % 2 else "rec_ibm.py")
        cpath = os.path.join(work, "ladim.yaml")
        with open(cpath, "w") as f:
            yaml.safe_dump(conf, f)
        R.reset(ivars=["farm", "age"])
        crashed = None
        try:
            if sc.get("via_cli"):      # through the command line entry point (argument parsing, banner), as `ladim -s <file>`
                import contextlib
                import io
                import sys as _sys
                from ladim.main import script
                argv, _sys.argv = _sys.argv, ["ladim", "-s", cpath]
                try:
                    with contextlib.redirect_stdout(io.StringIO()):
                        script()
                finally:
                    _sys.argv = argv
            else:
                main(cpath, loglevel=logging.CRITICAL)
        except SystemExit as e:
            crashed = f"SystemExit({e.code})"
        except BaseException as e:  # noqa: BLE001
            import traceback
            tb = traceback.extract_tb(e.__traceback__)[-1]
            crashed = f"{type(e).__name__}: {str(e)[:80]} @{os.path.basename(tb.filename)}:{tb.lineno}"
        ev += list(R.EVENTS)
        R.reset()
        if crashed and crashed.startswith("SystemExit") and not any(e["ev"] == "timer" for e in ev):
            ev.append(dict(ev="refused", what=crashed, nfiles=len(output_files(work, sc))))
        elif crashed:
            ev.append(dict(ev="crash", what=crashed))
        else:
            ev.append(dict(ev="files", files=decode_files(work, sc)))
        keep = sc.get("keep_output")
        if keep:
            os.makedirs(keep, exist_ok=True)
            for fn in output_files(work, sc):
                shutil.copy(fn, keep)
    finally:
        import gc
        gc.collect()
        shutil.rmtree(work, ignore_errors=True)
    return ev
