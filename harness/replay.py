"""Replay one recorded violation: re-run the scenario through the real code and validate the trace again."""
from __future__ import annotations

import importlib
import json
import re

from . import tlc
from .common import pmap


def replay(path):
    v = json.load(open(path))
    pid, driver, sc = v["property"], v["driver"], v["scenario"]
    mod = importlib.import_module(f"harness.checks.{pid.lower()}")
    if driver.startswith("mc:"):
        rep = mod.run("quick", 0)
        bad = [x for x in rep.violations if x["driver"] == driver]
        print(f"replay {path}: model check {driver} {'VIOLATED' if bad else 'ok'}")
        return 1 if bad else 0
    if driver not in getattr(mod, "DRIVERS", {}):
        # drivers without a single-scenario entry point (e.g. the behaviour replay of C05): re-run the quick check
        rep = mod.run("quick", 0)
        bad = [x for x in rep.violations if x["driver"] == driver]
        print(f"replay {path}: driver {driver} re-run as part of the quick check: {'VIOLATION property=%s replay=%s' % (pid, path) if bad else 'no violation'}")
        return 1 if bad else 0
    fn_mod, fn_name, spec, family = mod.DRIVERS[driver]
    env = getattr(mod, "ENV", None)
    traces = pmap(fn_mod, fn_name, [sc], procs=1, env=env)
    ver = tlc.validate_traces(spec, traces, parallel=1)
    fam = re.compile(family) if family else None
    rej = [(l, c) for l, c in ver.rejects.get(1, []) if fam is None or fam.search(c)]
    for l, c in rej:
        print(f"  rejected at event {l}: clause {c}")
        if 0 < l <= len(traces[0]):
            print("   event:", json.dumps(traces[0][l - 1])[:600])
    print(f"replay {path}: {'VIOLATION property=%s replay=%s' % (pid, path) if rej else 'accepted (no violation)'}")
    return 1 if rej else 0
